#!/bin/bash
# Offline setup: builds the harness, the real llw / lelwel-ls from /repo's working tree and pre-compiles the
# batch cache of emitted parsers for the quick families (content addressed: a changed /repo recompiles).
set -u
cd "$(dirname "$0")"
export VERIF_DIR="$(pwd)"
export CARGO_NET_OFFLINE=true
mkdir -p .work .cache
(cd harness && cargo build --release --offline -q) || { echo "harness build failed" >&2; exit 1; }
cargo build --release --offline -q --manifest-path /repo/Cargo.toml --features cli,lsp --bins \
  --target-dir harness/target/repo-bins || { echo "building llw / lelwel-ls failed" >&2; exit 1; }
harness/target/release/vcheck warm
