//! Thin wrapper around lelwel's real front end.

use codespan_reporting::diagnostic::Severity;
use lelwel::frontend::parser::{Cst, Diagnostic, Parser};
use lelwel::frontend::sema::{SemanticData, SemanticPass};

pub struct Front<'a, 'b> {
    pub cst: &'a Cst<'b>,
    pub sema: &'a SemanticData<'a>,
    pub diags: &'a [Diagnostic],
    /// number of diagnostics produced by lexer + parser (they come first)
    pub syntax_diags: usize,
}

impl Front<'_, '_> {
    pub fn has_error(&self) -> bool {
        self.diags.iter().any(|d| d.severity == Severity::Error)
    }
    pub fn has_syntax_error(&self) -> bool {
        self.syntax_diags > 0
    }
    pub fn codes(&self) -> Vec<String> {
        self.diags
            .iter()
            .map(|d| d.code.clone().unwrap_or_else(|| "syntax".to_string()))
            .collect()
    }
    pub fn error_codes(&self) -> Vec<String> {
        self.diags
            .iter()
            .filter(|d| d.severity == Severity::Error)
            .map(|d| d.code.clone().unwrap_or_else(|| "syntax".to_string()))
            .collect()
    }
    /// the LL(1) stage ran (GeneralCheck reported no error)
    pub fn ll1_ran(&self) -> bool {
        !self.sema.first_sets.is_empty()
    }
}

pub fn with_front<R>(text: &str, f: impl FnOnce(&Front<'_, '_>) -> R) -> R {
    let mut diags = vec![];
    let cst = Parser::new(text, &mut diags).parse(&mut diags);
    let syntax_diags = diags.len();
    let sema = SemanticPass::run(&cst, &mut diags);
    let fr = Front {
        cst: &cst,
        sema: &sema,
        diags: &diags,
        syntax_diags,
    };
    f(&fr)
}

/// Like `with_front` but a panic of the front end is caught and returned as Err(message).
pub fn try_front<R>(text: &str, f: impl FnOnce(&Front<'_, '_>) -> R) -> Result<R, String> {
    std::panic::catch_unwind(std::panic::AssertUnwindSafe(|| with_front(text, f))).map_err(|p| {
        p.downcast_ref::<String>()
            .cloned()
            .or_else(|| p.downcast_ref::<&str>().map(|s| s.to_string()))
            .unwrap_or_else(|| "panic".to_string())
    })
}
