//! Grammar families handed to engine B (only model-side filters here; lelwel's own verdict is taken later).

use crate::stats::ebnf_bound;
use vmodel::families::*;
use vmodel::Grammar;

/// EBNF family members that are fully productive (so the emitted parser cannot recurse forever by
/// construction of the grammar).
pub fn ebnf_b(leaves: usize, unary: usize, max_rules: usize) -> Vec<Grammar> {
    let mut out = vec![];
    ebnf_all(&ebnf_bound(leaves, unary, max_rules, false), &mut |g| {
        if g.fully_productive() {
            out.push(g.clone());
        }
    });
    out
}

#[derive(Clone, Copy, PartialEq, Eq, Debug)]
pub enum Fam {
    Ebnf,
    Pratt,
    Node,
    Pred,
    Choice,
    Parts,
    Markers,
}

pub fn describe(f: Fam, thorough: bool) -> &'static str {
    match (f, thorough) {
        (Fam::Ebnf, false) => "EBNF(3,1,rules<=3) ∪ EBNF(4,0,rules<=2) ∪ REC (6 recursive rules with terminated loops)",
        (Fam::Ebnf, true) => "EBNF(4,1,rules<=3) ∪ EBNF(3,2,rules<=3) ∪ EBNF(5,0,rules<=3)",
        (Fam::Pratt, false) => "PRATT(branches<=2, 2 operator tokens, atoms A and L e R)",
        (Fam::Pratt, true) => "PRATT(branches<=3, 2 operator tokens) ∪ PRATT(branches<=2, 3 operator tokens)",
        (Fam::Node, false) => "NODE(1) on 9 base bodies",
        (Fam::Node, true) => "NODE(2) on 9 base bodies",
        (Fam::Pred, false) => "PRED: EBNF(2,1,2) with 1 inserted ?1/?t/!1/#1",
        (Fam::Pred, true) => "PRED: EBNF(2,1,2) with <=2, EBNF(3,0,2) with 1 inserted ?1/?t/!1/#1",
        (Fam::Choice, false) => "CHOICE: one ordered choice in EBNF(3,0,2) with <=1 inserted ~, in two-rule EBNF(4,0,2), CHOICE-TAIL (choice with nullable last alternative at the end of a rule, 60 grammars)",
        (Fam::Choice, true) => "CHOICE: one ordered choice in EBNF(3,0,2) with <=1 inserted ~/&/!1 or <=2 inserted ~, in EBNF(4,0,2), CHOICE-TAIL",
        (Fam::Markers, false) => "MARKERS: two marker/creation pairs in every placement (crossing included) in `x: A B C A`",
        (Fam::Markers, true) => "MARKERS: two marker/creation pairs in every placement (crossing included) in `x: A B C A` and `x: A y C A`",
        (Fam::Parts, false) => "PARTS: EBNF(3,1,3) with every non-empty subset of non-start rules as parts; SHARED-PART (a rule with a loop shared by start rule and part, 108 grammars)",
        (Fam::Parts, true) => "PARTS: EBNF(4,1,3) with every non-empty subset of non-start rules as parts; SHARED-PART",
    }
}

pub fn family_of(f: Fam, thorough: bool) -> Vec<Grammar> {
    match (f, thorough) {
        (Fam::Ebnf, false) => {
            let mut v = ebnf_b(3, 1, 3);
            v.extend(ebnf_b(4, 0, 2));
            v.extend(rec_family());
            v
        }
        (Fam::Ebnf, true) => {
            let mut v = ebnf_b(4, 1, 3);
            v.extend(ebnf_b(3, 2, 3));
            v.extend(ebnf_b(5, 0, 3));
            v.extend(rec_family());
            v
        }
        (Fam::Pratt, t) => {
            let mut v = vec![];
            if t {
                pratt_family(3, 2, &mut |g| v.push(g.clone()));
                pratt_family(2, 3, &mut |g| v.push(g.clone()));
            } else {
                pratt_family_atoms(2, 2, &[1], &mut |g| v.push(g.clone()));
            }
            v
        }
        (Fam::Node, t) => node_family(if t { 2 } else { 1 }, &node_bases()),
        (Fam::Pred, false) => pred_family(&ebnf_bound(2, 1, 2, false), 1),
        (Fam::Pred, true) => {
            let mut v = pred_family(&ebnf_bound(2, 1, 2, false), 2);
            v.extend(pred_family(&ebnf_bound(3, 0, 2, false), 1));
            v
        }
        (Fam::Choice, false) => {
            let mut v = choice_family_ops(&ebnf_bound(3, 0, 2, false), 1, &[vmodel::Rx::Commit]);
            v.extend(
                choice_family(&ebnf_bound(4, 0, 2, false), 0)
                    .into_iter()
                    .filter(|g| g.rules.len() == 2),
            );
            v.extend(choice_tail_family());
            v
        }
        (Fam::Choice, true) => {
            let mut v = choice_family(&ebnf_bound(3, 0, 2, false), 1);
            v.extend(choice_family_ops(&ebnf_bound(3, 0, 2, false), 2, &[vmodel::Rx::Commit]));
            v.extend(choice_family(&ebnf_bound(4, 0, 2, false), 0));
            v.extend(choice_tail_family());
            v
        }
        (Fam::Markers, t) => markers_family(if t { &[0, 1] } else { &[0] }),
        (Fam::Parts, t) => {
            let mut v = parts_family(&ebnf_bound(if t { 4 } else { 3 }, 1, 3, false));
            v.extend(shared_part_family());
            v
        }
    }
}

pub fn families_for(prop: &str) -> Vec<Fam> {
    use Fam::*;
    match prop {
        "C04" => vec![Ebnf, Pratt, Node, Choice, Parts],
        "C05" => vec![Node, Ebnf, Pratt, Pred, Parts],
        "C06" => vec![Ebnf, Pratt, Node, Parts],
        "C07" => vec![Pratt],
        "C08" => vec![Choice],
        "C01" | "C02" | "C03" | "C11" => vec![Ebnf, Pratt, Node, Pred, Choice, Parts, Markers],
        _ => vec![Ebnf, Pratt, Node, Pred, Choice, Parts],
    }
}

/// All grammars for a property (deduplicated, each with an additional skipped token `W`).
pub fn family(prop: &str, thorough: bool) -> (Vec<Grammar>, Vec<String>) {
    let mut v = vec![];
    let mut names = vec![];
    for f in families_for(prop) {
        v.extend(family_of(f, thorough));
        names.push(describe(f, thorough).to_string());
    }
    if matches!(prop, "C01" | "C02" | "C03" | "C11") {
        v.extend(commit_return_family());
        names.push("COMMIT-RETURN: one ordered choice in EBNF(3,0,2) with exactly one `~` and one `&` inserted (every placement)".to_string());
    }
    if prop == "C11" {
        v.extend(names_family());
        names.push("NAMES: 17 identifier-stressing names as rule, part, rename and creation names, all pairs of them; EMPTY: empty-bodied rules as part / referenced rule, rules reachable only through an unused part".to_string());
    }
    let mut seen = std::collections::HashSet::new();
    v.retain(|g| seen.insert(g.clone()));
    let v = v.into_iter().map(|g| g.with_skip_token()).collect();
    (v, names)
}

/// COMMIT-RETURN: a return `&` at a committed position of a function that still returns `Option<()>`.
pub fn commit_return_family() -> Vec<Grammar> {
    use vmodel::Rx;
    let has = |g: &Grammar, want: &Rx| {
        let mut n = 0;
        g.walk_all(&mut |_, r| {
            if r == want {
                n += 1
            }
        });
        n == 1
    };
    choice_family_ops(&ebnf_bound(3, 0, 2, false), 2, &[Rx::Commit, Rx::Return])
        .into_iter()
        .filter(|g| has(g, &Rx::Commit) && has(g, &Rx::Return))
        .collect()
}

/// NAMES: rule / rename / creation names that stress identifier generation in the emitted code.
pub fn names_family() -> Vec<Grammar> {
    use vmodel::Rx;
    let names = [
        "foo_bar", "fooBar", "foo__bar", "foo_", "type", "fn", "self", "match", "r2d2", "x_1", "part", "rule", "node", "token", "cst", "parser", "diags",
    ];
    let mut out = vec![];
    for a in names {
        // as a rule name
        let mut g = grammar(2, vec![("s", false, Some(cat(vec![tok(0), rf(1)]))), (a, false, Some(tok(1)))]);
        out.push(g.clone());
        g.parts = vec![1];
        out.push(g);
        // as a rename and as a created node name
        out.push(grammar(2, vec![("s", false, Some(rf(1))), ("x", false, Some(cat(vec![tok(0), Rx::Rename(a.into()), tok(1)])))]));
        out.push(grammar(2, vec![("s", false, Some(rf(1))), ("x", false, Some(cat(vec![Rx::Marker(1), tok(0), Rx::Create(Some(1), Some(a.into())), tok(1)])))]));
        for b in names {
            if a < b {
                // two names in one grammar (e.g. foo_bar and fooBar map to the same enum variant)
                out.push(grammar(
                    2,
                    vec![("s", false, Some(cat(vec![rf(1), rf(2)]))), (a, false, Some(tok(0))), (b, false, Some(tok(1)))],
                ));
            }
        }
    }
    // EMPTY: empty-bodied rules in every role, and rules that are reachable only through an unused part
    {
        let mut g = grammar(2, vec![("s", false, Some(tok(0))), ("p", false, None)]);
        g.parts = vec![1];
        out.push(g); // unreferenced empty part
        let mut g = grammar(2, vec![("s", false, Some(cat(vec![tok(0), rf(1)]))), ("p", false, None)]);
        out.push(g.clone()); // referenced empty rule
        g.parts = vec![1];
        out.push(g); // referenced empty part
        let mut g = grammar(
            3,
            vec![("s", false, Some(tok(0))), ("p", false, Some(cat(vec![rf(2), tok(1)]))), ("q", false, Some(star(tok(2))))],
        );
        g.parts = vec![1];
        out.push(g); // q is reachable only through the unused part p
        let mut g = grammar(
            3,
            vec![("s", false, Some(tok(0))), ("p", false, Some(cat(vec![tok(1), rf(2)]))), ("q", false, None)],
        );
        g.parts = vec![1];
        out.push(g);
    }
    for r in ["error", "part"] {
        let mut g = grammar(2, vec![("s", false, Some(rf(1))), ("x", false, Some(cat(vec![tok(0), Rx::Rename(r.into()), tok(1)]))), ("p", false, Some(tok(1)))]);
        out.push(g.clone());
        g.parts = vec![2];
        out.push(g);
    }
    out
}
