//! Grammar families handed to engine B (only model-side filters here; lelwel's own verdict is taken later).

use crate::stats::ebnf_bound;
use vmodel::families::ebnf_all;
use vmodel::Grammar;

/// EBNF family members that are fully productive (so the emitted parser cannot recurse forever by
/// construction of the grammar), each with an additional skipped token `W`.
pub fn ebnf_b(leaves: usize, unary: usize, max_rules: usize) -> Vec<Grammar> {
    let mut out = vec![];
    ebnf_all(&ebnf_bound(leaves, unary, max_rules, false), &mut |g| {
        if g.fully_productive() {
            out.push(g.clone().with_skip_token());
        }
    });
    out
}

pub fn family(tier_thorough: bool) -> Vec<Grammar> {
    let mut v = if tier_thorough {
        let mut v = ebnf_b(4, 2, 3);
        v.extend(ebnf_b(5, 1, 2));
        v
    } else {
        let mut v = ebnf_b(3, 2, 3);
        v.extend(ebnf_b(4, 0, 3));
        v
    };
    let mut seen = std::collections::HashSet::new();
    v.retain(|g| seen.insert(g.clone()));
    v
}
