//! The aligner: walks the model and lelwel's typed view (`frontend::ast`) in lock-step. It returns the map
//! arena node -> lelwel NodeRef used by the analysis-level checks, and at the same time is the C13 oracle:
//! any shape / name / number mismatch is reported.

use lelwel::frontend::ast::{self, AstNode, Named};
use lelwel::frontend::lexer::Token;
use lelwel::frontend::parser::{Cst, Node, NodeRef, Rule};
use vmodel::arena::Arena;
use vmodel::{Decl, Grammar, Rx};

pub struct Alignment {
    /// lelwel node of every arena node
    pub node: Vec<NodeRef>,
    /// lelwel RuleDecl of every model rule
    pub rule: Vec<ast::RuleDecl>,
}

fn kind_name(r: &ast::Regex) -> &'static str {
    match r {
        ast::Regex::OrderedChoice(_) => "OrderedChoice",
        ast::Regex::Alternation(_) => "Alternation",
        ast::Regex::Concat(_) => "Concat",
        ast::Regex::Paren(_) => "Paren",
        ast::Regex::Optional(_) => "Optional",
        ast::Regex::Star(_) => "Star",
        ast::Regex::Plus(_) => "Plus",
        ast::Regex::Name(_) => "Name",
        ast::Regex::Symbol(_) => "Symbol",
        ast::Regex::Predicate(_) => "Predicate",
        ast::Regex::Action(_) => "Action",
        ast::Regex::Assertion(_) => "Assertion",
        ast::Regex::NodeRename(_) => "NodeRename",
        ast::Regex::NodeElision(_) => "NodeElision",
        ast::Regex::NodeMarker(_) => "NodeMarker",
        ast::Regex::NodeCreation(_) => "NodeCreation",
        ast::Regex::Commit(_) => "Commit",
        ast::Regex::Return(_) => "Return",
    }
}

struct Ctx<'a, 'b> {
    g: &'a Grammar,
    cst: &'a Cst<'b>,
    out: Vec<NodeRef>,
}

impl Ctx<'_, '_> {
    fn rx(&mut self, m: &Rx, l: ast::Regex, at: &str) -> Result<(), String> {
        let cst = self.cst;
        self.out.push(l.syntax());
        let mism = |what: &str| -> Result<(), String> {
            Err(format!(
                "at {at}: model {:?} but lelwel sees {} ({what}) text `{}`",
                m,
                kind_name(&l),
                &cst.source()[cst.span(l.syntax())]
            ))
        };
        match (m, l) {
            (Rx::Tok(t), ast::Regex::Name(n)) => {
                if n.value(cst).map(|v| v.0) != Some(self.g.tokens[*t].name.as_str()) {
                    return mism("token name");
                }
            }
            (Rx::Ref(r), ast::Regex::Name(n)) => {
                if n.value(cst).map(|v| v.0) != Some(self.g.rules[*r].name.as_str()) {
                    return mism("rule name");
                }
            }
            (Rx::Sym(t), ast::Regex::Symbol(s)) => {
                let want = format!("'{}'", self.g.tokens[*t].symbol.as_ref().unwrap());
                if s.value(cst).map(|v| v.0) != Some(want.as_str()) {
                    return mism("symbol text");
                }
            }
            (Rx::Concat(v), ast::Regex::Concat(c)) => {
                let ops: Vec<_> = c.operands(cst).collect();
                if ops.len() != v.len() {
                    return mism("operand count");
                }
                for (i, (mm, ll)) in v.iter().zip(ops).enumerate() {
                    self.rx(mm, ll, &format!("{at}.{i}"))?;
                }
            }
            (Rx::Alt(v), ast::Regex::Alternation(c)) => {
                let ops: Vec<_> = c.operands(cst).collect();
                if ops.len() != v.len() {
                    return mism("operand count");
                }
                for (i, (mm, ll)) in v.iter().zip(ops).enumerate() {
                    self.rx(mm, ll, &format!("{at}.{i}"))?;
                }
            }
            (Rx::Choice(v), ast::Regex::OrderedChoice(c)) => {
                let ops: Vec<_> = c.operands(cst).collect();
                if ops.len() != v.len() {
                    return mism("operand count");
                }
                for (i, (mm, ll)) in v.iter().zip(ops).enumerate() {
                    self.rx(mm, ll, &format!("{at}.{i}"))?;
                }
            }
            (Rx::Star(x), ast::Regex::Star(s)) => match s.operand(cst) {
                Some(op) => self.rx(x, op, &format!("{at}.0"))?,
                None => return mism("missing operand"),
            },
            (Rx::Plus(x), ast::Regex::Plus(s)) => match s.operand(cst) {
                Some(op) => self.rx(x, op, &format!("{at}.0"))?,
                None => return mism("missing operand"),
            },
            (Rx::Opt(x), ast::Regex::Optional(s)) => match s.operand(cst) {
                Some(op) => self.rx(x, op, &format!("{at}.0"))?,
                None => return mism("missing operand"),
            },
            (Rx::Paren(x), ast::Regex::Paren(p)) => match (x, p.inner(cst)) {
                (Some(x), Some(inner)) => self.rx(x, inner, &format!("{at}.0"))?,
                (None, None) => {}
                _ => return mism("paren content"),
            },
            (Rx::Pred(n), ast::Regex::Predicate(p)) => {
                let want = match n {
                    None => "?t".to_string(),
                    Some(n) => format!("?{n}"),
                };
                if p.value(cst).map(|v| v.0) != Some(want.as_str()) {
                    return mism("predicate text");
                }
                if p.is_true(cst) != n.is_none() {
                    return mism("is_true");
                }
            }
            (Rx::Action(n), ast::Regex::Action(p)) => {
                if p.value(cst).map(|v| v.0) != Some(format!("#{n}").as_str()) {
                    return mism("action text");
                }
            }
            (Rx::Assert(n), ast::Regex::Assertion(p)) => {
                if p.value(cst).map(|v| v.0) != Some(format!("!{n}").as_str()) {
                    return mism("assertion text");
                }
            }
            (Rx::Rename(n), ast::Regex::NodeRename(p)) => {
                if p.value(cst).map(|v| v.0) != Some(format!("@{n}").as_str()) {
                    return mism("rename text");
                }
            }
            (Rx::Elide, ast::Regex::NodeElision(_)) => {}
            (Rx::Marker(n), ast::Regex::NodeMarker(p)) => {
                if p.number(cst) != n.to_string() {
                    return mism("marker number");
                }
            }
            (Rx::Create(n, name), ast::Regex::NodeCreation(p)) => {
                if p.number(cst).map(|s| s.to_string()) != n.map(|n| n.to_string()) {
                    return mism("creation number");
                }
                if p.node_name(cst) != name.as_deref() {
                    return mism("creation name");
                }
                if p.whole_rule(cst) != n.is_none() {
                    return mism("whole_rule");
                }
            }
            (Rx::Commit, ast::Regex::Commit(_)) => {}
            (Rx::Return, ast::Regex::Return(_)) => {}
            _ => return mism("node kind"),
        }
        Ok(())
    }
}

/// Aligns rule bodies only (rules matched by name). Used by analysis-level checks.
pub fn align(g: &Grammar, arena: &Arena, cst: &Cst<'_>) -> Result<Alignment, String> {
    let file = ast::File::cast(cst, NodeRef::ROOT).ok_or("no File node at root")?;
    let decls: Vec<ast::RuleDecl> = file.rule_decls(cst).collect();
    let mut ctx = Ctx {
        g,
        cst,
        out: Vec::with_capacity(arena.len()),
    };
    let mut rules = vec![];
    for (ri, r) in g.rules.iter().enumerate() {
        let found: Vec<_> = decls
            .iter()
            .filter(|d| d.name(cst).map(|n| n.0) == Some(r.name.as_str()))
            .collect();
        if found.len() != 1 {
            return Err(format!(
                "rule `{}`: {} declarations seen by lelwel",
                r.name,
                found.len()
            ));
        }
        let d = *found[0];
        rules.push(d);
        if d.is_elided(cst) != r.elided {
            return Err(format!("rule `{}`: elision flag differs", r.name));
        }
        match (&r.body, d.regex(cst)) {
            (Some(b), Some(l)) => {
                debug_assert_eq!(arena.roots[ri], Some(ctx.out.len()));
                ctx.rx(b, l, &r.name)?
            }
            (None, None) => {}
            _ => return Err(format!("rule `{}`: body presence differs", r.name)),
        }
    }
    if ctx.out.len() != arena.len() {
        return Err("aligned node count differs from arena".into());
    }
    Ok(Alignment {
        node: ctx.out,
        rule: rules,
    })
}

/// Full C13 comparison: declaration kinds and order, names, symbols, lists, plus all rule bodies.
pub fn align_file(g: &Grammar, decls: &[Decl], cst: &Cst<'_>) -> Result<(), String> {
    let arena = Arena::build(g);
    align(g, &arena, cst)?;
    let _file = ast::File::cast(cst, NodeRef::ROOT).ok_or("no File node at root")?;
    // top-level children of the file node in order (skipping trivia tokens)
    let mut seen: Vec<NodeRef> = vec![];
    for c in cst.children(NodeRef::ROOT) {
        match cst.get(c) {
            Node::Rule(..) => seen.push(c),
            Node::Token(
                Token::Whitespace | Token::LineComment | Token::BlockComment | Token::DocComment,
                _,
            ) => {}
            Node::Token(t, _) => return Err(format!("stray token {t:?} at top level")),
        }
    }
    if seen.len() != decls.len() {
        return Err(format!(
            "{} top-level declarations written, lelwel sees {}",
            decls.len(),
            seen.len()
        ));
    }
    let ids = |node: NodeRef, with_str: bool| -> Vec<String> {
        cst.children(node)
            .filter_map(|c| {
                cst.match_token(c, Token::Id)
                    .or_else(|| with_str.then(|| cst.match_token(c, Token::Str)).flatten())
                    .map(|(s, _)| s.to_string())
            })
            .collect()
    };
    for (i, (d, n)) in decls.iter().zip(seen.iter()).enumerate() {
        let n = *n;
        match d {
            Decl::Tokens(ts) => {
                if !cst.match_rule(n, Rule::TokenList) {
                    return Err(format!("decl {i}: expected token list"));
                }
                let tds: Vec<ast::TokenDecl> = cst
                    .children(n)
                    .filter_map(|c| ast::TokenDecl::cast(cst, c))
                    .collect();
                if tds.len() != ts.len() {
                    return Err(format!("decl {i}: token count differs"));
                }
                for (t, td) in ts.iter().zip(tds) {
                    let want = &g.tokens[*t];
                    if td.name(cst).map(|x| x.0) != Some(want.name.as_str()) {
                        return Err(format!("decl {i}: token name differs"));
                    }
                    let sym = td.symbol(cst).map(|x| x.0.to_string());
                    if sym != want.symbol.as_ref().map(|s| format!("'{s}'")) {
                        return Err(format!("decl {i}: token symbol differs: {sym:?}"));
                    }
                }
            }
            Decl::Skip(ts) => {
                if ast::SkipDecl::cast(cst, n).is_none() {
                    return Err(format!("decl {i}: expected skip decl"));
                }
                let want: Vec<String> = ts.iter().map(|t| g.tokens[*t].name.clone()).collect();
                if ids(n, true) != want {
                    return Err(format!("decl {i}: skip list differs"));
                }
            }
            Decl::Right(ts) => {
                if ast::RightDecl::cast(cst, n).is_none() {
                    return Err(format!("decl {i}: expected right decl"));
                }
                let want: Vec<String> = ts.iter().map(|t| g.tokens[*t].name.clone()).collect();
                if ids(n, true) != want {
                    return Err(format!("decl {i}: right list differs"));
                }
            }
            Decl::Start => {
                let Some(sd) = ast::StartDecl::cast(cst, n) else {
                    return Err(format!("decl {i}: expected start decl"));
                };
                if sd.rule_name(cst).map(|x| x.0) != Some(g.rules[g.start].name.as_str()) {
                    return Err(format!("decl {i}: start rule name differs"));
                }
            }
            Decl::Part(ps) => {
                if ast::PartDecl::cast(cst, n).is_none() {
                    return Err(format!("decl {i}: expected part decl"));
                }
                let want: Vec<String> = ps.iter().map(|p| g.rules[*p].name.clone()).collect();
                if ids(n, false) != want {
                    return Err(format!("decl {i}: part list differs"));
                }
            }
            Decl::Rule(r) => {
                let Some(rd) = ast::RuleDecl::cast(cst, n) else {
                    return Err(format!("decl {i}: expected rule decl"));
                };
                if rd.name(cst).map(|x| x.0) != Some(g.rules[*r].name.as_str()) {
                    return Err(format!("decl {i}: rule name differs"));
                }
            }
        }
    }
    Ok(())
}
