//! C10 — LL(1) conflicts are reported exactly where the grammar has them; C14 — recovery sets.

use crate::align::{align, Alignment};
use crate::front::{try_front, Front};
use crate::stats::{ebnf_bound, par_ebnf, par_list, Acc};
use lelwel::frontend::parser::NodeRef;
use lelwel::frontend::sema::TokenName;
use serde_json::json;
use std::collections::{BTreeMap, BTreeSet};
use vcommon::{Report, Violation};
use vmodel::arena::{Arena, NodeId, K};
use vmodel::bnf::{terminal_name, Bnf, Sets};
use vmodel::conf::{conflicts, Conflict};
use vmodel::families::*;
use vmodel::Grammar;

fn describe(g: &Grammar, a: &Arena, c: &Conflict) -> String {
    match c {
        Conflict::Alt(id) => format!("E011 alternation {}", a.describe(g, *id)),
        Conflict::LeftRec(r) => format!("E012 left-recursive rule {}", g.rules[*r].name),
        Conflict::Rep(id) => format!("E013 repetition {}", a.describe(g, *id)),
        Conflict::Opt(id) => format!("E014 option {}", a.describe(g, *id)),
    }
}

fn kind(c: &Conflict) -> &'static str {
    match c {
        Conflict::Alt(_) => "E011",
        Conflict::LeftRec(_) => "E012",
        Conflict::Rep(_) => "E013",
        Conflict::Opt(_) => "E014",
    }
}

/// maps lelwel's conflict diagnostics to constructs of the model via the primary label span
fn lelwel_conflicts(fr: &Front<'_, '_>, g: &Grammar, a: &Arena, al: &Alignment) -> Result<BTreeSet<Conflict>, String> {
    let _ = g;
    let mut by_span: BTreeMap<(usize, usize), Vec<NodeId>> = BTreeMap::new();
    for id in 0..a.len() {
        let s = fr.cst.span(al.node[id]);
        by_span.entry((s.start, s.end)).or_default().push(id);
    }
    let mut out = BTreeSet::new();
    for d in fr.diags {
        let Some(code) = d.code.as_deref() else { continue };
        if !matches!(code, "E011" | "E012" | "E013" | "E014") {
            continue;
        }
        let Some(l) = d
            .labels
            .iter()
            .find(|l| l.style == codespan_reporting::diagnostic::LabelStyle::Primary)
        else {
            return Err(format!("{code} without primary label"));
        };
        let ids = by_span
            .get(&(l.range.start, l.range.end))
            .ok_or(format!("{code}: primary span {:?} is not a regex occurrence", l.range))?;
        let c = match code {
            "E011" => {
                // the reported branch: a node whose parent is an alternation
                let id = ids
                    .iter()
                    .find(|id| a.nodes[**id].parent.is_some_and(|p| matches!(a.nodes[p].kind, K::Alt)))
                    .ok_or("E011 span is not a branch of an alternation")?;
                Conflict::Alt(a.nodes[*id].parent.unwrap())
            }
            "E012" => Conflict::LeftRec(a.nodes[ids[0]].rule),
            "E013" => {
                let id = ids
                    .iter()
                    .find(|id| matches!(a.nodes[**id].kind, K::Star | K::Plus))
                    .ok_or("E013 span is not a repetition")?;
                Conflict::Rep(*id)
            }
            _ => {
                let id = ids
                    .iter()
                    .find(|id| matches!(a.nodes[**id].kind, K::Opt))
                    .ok_or("E014 span is not an option")?;
                Conflict::Opt(*id)
            }
        };
        out.insert(c);
    }
    Ok(out)
}

pub fn check_c10(g: &Grammar, acc: &mut Acc) {
    acc.inc("grammars");
    if !g.is_reduced() {
        acc.inc("skipped_not_reduced");
        return;
    }
    let text = g.text();
    let r = try_front(&text, |fr| {
        if fr.has_syntax_error() || !fr.ll1_ran() {
            acc.inc("skipped_name_resolution_or_syntax");
            return;
        }
        let arena = Arena::build(g);
        let Ok(al) = align(g, &arena, fr.cst) else {
            acc.inc("skipped_alignment_failed");
            return;
        };
        acc.inc("compared_grammars");
        let bnf = Bnf::build(g, &arena);
        let sets = Sets::compute(&bnf);
        let expected = conflicts(g, &arena, &sets);
        let got = match lelwel_conflicts(fr, g, &arena, &al) {
            Ok(s) => s,
            Err(e) => {
                acc.violation(Violation {
                    key: "unmappable-conflict-diagnostic".into(),
                    summary: format!("C10: {e} in `{}`", text.trim().replace('\n', " ")),
                    replay: json!({"grammar": text, "sexp": vmodel::sexp::to_sexp(g), "error": e}),
                });
                return;
            }
        };
        acc.add("constructs_compared", arena.nodes.iter().filter(|n| matches!(n.kind, K::Alt | K::Star | K::Plus | K::Opt)).count() as u64);
        if !expected.is_empty() {
            acc.inc("grammars_with_conflicts");
        }
        acc.outcome(&format!("{expected:?}"));
        for c in expected.difference(&got) {
            acc.violation(Violation {
                key: format!("missed:{}:{}", kind(c), crate::engine_b::shape_class(g)),
                summary: format!(
                    "C10: conflict not reported: {} in `{}`",
                    describe(g, &arena, c),
                    text.trim().replace('\n', " ")
                ),
                replay: json!({"grammar": text, "sexp": vmodel::sexp::to_sexp(g), "missed": describe(g, &arena, c), "lelwel_codes": fr.codes()}),
            });
        }
        for c in got.difference(&expected) {
            acc.violation(Violation {
                key: format!("spurious:{}:{}", kind(c), crate::engine_b::shape_class(g)),
                summary: format!(
                    "C10: conflict reported although one lookahead token decides: {} in `{}`",
                    describe(g, &arena, c),
                    text.trim().replace('\n', " ")
                ),
                replay: json!({"grammar": text, "sexp": vmodel::sexp::to_sexp(g), "spurious": describe(g, &arena, c), "lelwel_codes": fr.codes()}),
            });
        }
        if acc.samples.len() < 3 && !expected.is_empty() {
            acc.sample(json!({"grammar": text, "conflicts": expected.iter().map(|c| describe(g, &arena, c)).collect::<Vec<_>>()}));
        }
    });
    if r.is_err() {
        acc.inc("front_end_panics_(C12)");
    }
}

fn names(s: Option<&BTreeSet<TokenName<'_>>>) -> BTreeSet<String> {
    s.map(|s| s.iter().map(|t| t.0.to_string()).collect())
        .unwrap_or_default()
}

pub fn check_c14(g: &Grammar, acc: &mut Acc) {
    acc.inc("grammars");
    if !g.is_reduced() {
        acc.inc("skipped_not_reduced");
        return;
    }
    let text = g.text();
    let r = try_front(&text, |fr| {
        if fr.has_error() {
            acc.inc("skipped_rejected");
            return;
        }
        let arena = Arena::build(g);
        let Ok(al) = align(g, &arena, fr.cst) else {
            acc.inc("skipped_alignment_failed");
            return;
        };
        acc.inc("compared_grammars");
        // graph: parent -> child, reference -> referenced rule body, start body -> body of unused parts
        let n = arena.len();
        let start = arena.roots[g.start].expect("start rule has a body in reduced accepted grammars");
        let mut succ: Vec<Vec<NodeId>> = vec![vec![]; n];
        for (id, node) in arena.nodes.iter().enumerate() {
            for c in &node.children {
                succ[id].push(*c);
            }
            if let K::Ref(r) = node.kind {
                if let Some(root) = arena.roots[r] {
                    succ[id].push(root);
                }
            }
        }
        let from_start = g.reachable_from_start();
        for p in &g.parts {
            if !from_start[*p] {
                if let Some(root) = arena.roots[*p] {
                    succ[start].push(root);
                }
            }
        }
        let reach = |removed: Option<NodeId>, from: NodeId| -> Vec<bool> {
            let mut seen = vec![false; n];
            if Some(from) == removed {
                return seen;
            }
            let mut stack = vec![from];
            while let Some(x) = stack.pop() {
                if seen[x] {
                    continue;
                }
                seen[x] = true;
                for y in &succ[x] {
                    if Some(*y) != removed {
                        stack.push(*y);
                    }
                }
            }
            seen
        };
        let base = reach(None, start);
        // dominators by definition: d dominates l iff l is unreachable once d is removed
        let mut unreach_without: Vec<Vec<bool>> = Vec::with_capacity(n);
        for d in 0..n {
            unreach_without.push(reach(Some(d), start).iter().map(|b| !b).collect());
        }
        // reachability from each entry body (for the end-marker clause)
        let entry_reach: Vec<(String, Vec<bool>)> = g
            .entries()
            .iter()
            .enumerate()
            .filter_map(|(k, e)| {
                arena.roots[*e].map(|root| (terminal_name(g, g.tokens.len() + k), reach(None, root)))
            })
            .collect();
        for (id, node) in arena.nodes.iter().enumerate() {
            if !matches!(node.kind, K::Star | K::Plus | K::Opt) || !base[id] {
                continue;
            }
            acc.inc("loops_compared");
            let body = node.children[0];
            let lr: NodeRef = al.node[id];
            let got = names(fr.sema.recovery_sets.get(&lr));
            let mut expected: BTreeSet<String> = BTreeSet::new();
            for d in 0..n {
                if base[d] && (d == id || unreach_without[d][id]) {
                    expected.extend(names(fr.sema.follow_sets.get(&al.node[d])));
                }
            }
            for t in names(fr.sema.first_sets.get(&al.node[body])) {
                expected.remove(&t);
            }
            for t in names(fr.sema.follow_sets.get(&al.node[body])) {
                expected.remove(&t);
            }
            acc.outcome(&format!("{got:?}"));
            if !got.is_empty() {
                acc.inc("loops_with_nonempty_recovery_set");
            }
            if got != expected {
                acc.violation(Violation {
                    key: format!("recovery-set:{:?}", node.kind),
                    summary: format!(
                        "C14: recovery set of {} is {:?}, dominator-follow definition gives {:?} in `{}`",
                        arena.describe(g, id),
                        got,
                        expected,
                        text.trim().replace('\n', " ")
                    ),
                    replay: json!({"grammar": text, "sexp": vmodel::sexp::to_sexp(g), "node": arena.describe(g, id), "lelwel": got, "expected": expected}),
                });
            }
            let follow = names(fr.sema.follow_sets.get(&lr));
            for (marker, r) in &entry_reach {
                if r[id] && !got.contains(marker) && !follow.contains(marker) {
                    acc.violation(Violation {
                        key: "end-marker-missing".into(),
                        summary: format!(
                            "C14: neither recovery nor follow set of {} contains {marker} although it is reachable from that entry point, in `{}`",
                            arena.describe(g, id),
                            text.trim().replace('\n', " ")
                        ),
                        replay: json!({"grammar": text, "sexp": vmodel::sexp::to_sexp(g), "node": arena.describe(g, id), "marker": marker}),
                    });
                }
            }
            if acc.samples.len() < 3 && !got.is_empty() {
                acc.sample(json!({"grammar": text, "loop": arena.describe(g, id), "recovery": got}));
            }
        }
    });
    if r.is_err() {
        acc.inc("front_end_panics_(C12)");
    }
}

fn analysis_families(thorough: bool, with_pred: bool, f: &(dyn Fn(&Grammar, &mut Acc) + Sync)) -> (Acc, Vec<String>) {
    let mut acc = Acc::default();
    let mut names = vec![];
    let bounds = if thorough {
        vec![ebnf_bound(5, 2, 3, false), ebnf_bound(6, 1, 3, false)]
    } else {
        vec![ebnf_bound(4, 2, 3, false), ebnf_bound(5, 1, 3, false)]
    };
    for b in &bounds {
        names.push(format!("EBNF({},{},rules<={})", b.leaves, b.unary, b.max_rules));
        acc = acc.merge(par_ebnf(b, f));
    }
    let mut list: Vec<Grammar> = vec![];
    if thorough {
        pratt_family(3, 2, &mut |g| list.push(g.clone()));
        pratt_family(2, 3, &mut |g| list.push(g.clone()));
        names.push("PRATT(3,2) ∪ PRATT(2,3)".into());
    } else {
        pratt_family(2, 3, &mut |g| list.push(g.clone()));
        names.push("PRATT(2,3)".into());
    }
    list.extend(parts_family(&ebnf_bound(4, 1, 3, false)));
    list.extend(parts_family(&ebnf_bound(5, 2, 2, false)));
    list.extend(shared_part_family());
    names.push("PARTS(4,1,3) ∪ PARTS(5,2,2) ∪ SHARED-PART".into());
    list.extend(choice_family(&ebnf_bound(if thorough { 4 } else { 3 }, 1, 2, false), 1));
    names.push("CHOICE".into());
    if with_pred {
        list.extend(pred_family(&ebnf_bound(3, 1, 2, false), 1));
        names.push("PRED: EBNF(3,1,2) with one ?1/?t/!1/#1".into());
        // predicates on Pratt branches
        let mut pratt = vec![];
        pratt_family(2, 2, &mut |g| pratt.push(g.clone()));
        for g in pratt {
            list.extend(insert_one(&g, &[vmodel::Rx::Pred(Some(1))]));
        }
        names.push("PRATT(2,2) with one ?1".into());
    }
    acc = acc.merge(par_list(&list, f));
    (acc, names)
}

pub fn run(prop: &'static str, replay: Option<String>) -> i32 {
    let mut rep = Report::new(prop);
    let f: &(dyn Fn(&Grammar, &mut Acc) + Sync) = if prop == "C10" { &check_c10 } else { &check_c14 };
    if let Some(path) = replay {
        let v: serde_json::Value = serde_json::from_str(&std::fs::read_to_string(&path).expect("read replay")).unwrap();
        let g = vmodel::sexp::from_sexp(v["replay"]["sexp"].as_str().unwrap());
        let mut acc = Acc::default();
        f(&g, &mut acc);
        for v in acc.violations {
            rep.violation(v);
        }
        return rep.finish(json!({"states":1,"transitions":1,"traces_validated_against_impl":1,"samples":[path],"mode":"replay"}));
    }
    let (acc, fams) = analysis_families(rep.is_thorough(), prop == "C10", f);
    let unit = if prop == "C10" { "constructs_compared" } else { "loops_compared" };
    let coverage = json!({
        "states": acc.get(unit).max(1),
        "transitions": acc.get(unit).max(1),
        "traces_validated_against_impl": acc.get("compared_grammars"),
        "evaluations": acc.get("grammars"),
        "distinct_nontrivial": acc.outcomes.len(),
        "rule": if prop == "C10" {
            "every grammar of the families is run through lelwel's real front end; for reduced grammars on which the LL(1) stage ran the set of constructs with an E011/E012/E013/E014 diagnostic (mapped back through the primary label span and the lock-step aligner) must equal the set R-CONF derives from textbook predict/follow sets and the definition of each conflict. states = alternation/repetition/option constructs compared; distinct non-trivial = distinct expected conflict sets"
        } else {
            "for every accepted reduced grammar and every reachable repetition/option the recovery set must equal the union of lelwel's own follow sets over the brute-force dominators (remove a node, test reachability on an independently built graph) minus first and follow of the body, and recovery ∪ follow must contain the end marker of every entry point that reaches the loop. states = loops compared; distinct non-trivial = distinct recovery sets observed"
        },
        "samples": acc.samples,
        "exhaustive": true,
        "bounds": {"families": fams},
        "counters": acc.counters,
        "distinct_outcomes": acc.outcomes.len(),
        "violations_total": acc.violation_total,
    });
    for v in acc.violations {
        rep.violation(v);
    }
    rep.finish(coverage)
}
