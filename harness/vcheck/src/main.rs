mod align;
mod bfam;
mod bprops;
mod engine_b;
mod c09;
mod c10;
mod c13;
mod front;
mod stats;

fn main() {
    let args: Vec<String> = std::env::args().collect();
    let id = args.get(1).map(|s| s.as_str()).unwrap_or("");
    // quiet panic hook: panics of the code under test are caught and reported by the checks themselves
    std::panic::set_hook(Box::new(|_| {}));
    let replay = args
        .iter()
        .position(|a| a == "--replay")
        .and_then(|i| args.get(i + 1).cloned());
    let code = match id {
        "C09" => c09::run(replay),
        "C10" => c10::run("C10", replay),
        "C14" => c10::run("C14", replay),
        "C13" => c13::run_c13(replay),
        "C15" => c13::run_c15(replay),
        "C01" => bprops::run("C01", replay),
        "C02" => bprops::run("C02", replay),
        "C03" => bprops::run("C03", replay),
        "C04" => bprops::run("C04", replay),
        "C05" => bprops::run("C05", replay),
        "C06" => bprops::run("C06", replay),
        "C07" => bprops::run("C07", replay),
        "C08" => bprops::run("C08", replay),
        "C11" => bprops::run("C11", replay),
        "C16" => bprops::run("C16", replay),
        "warm" => {
            // pre-compiles the batch cache for the current /repo tree (used by setup and after big changes)
            let thorough = vcommon::tier() == "thorough";
            let (grammars, _) = bfam::family("C01", thorough);
            let out = engine_b::run_family(&grammars, &[], false);
            println!(
                "warm: {} grammars generated, {} batches, {} cache hits, {} compile failures",
                out.gens.len(),
                out.batches,
                out.cache_hits,
                out.compile_failures.len()
            );
            0
        }
        "count" => {
            stats::count_families(&args[2..]);
            0
        }
        _ => {
            eprintln!("vcheck: unknown property id `{id}`");
            2
        }
    };
    std::process::exit(code);
}
