mod align;
mod c09;
mod front;
mod stats;

fn main() {
    let args: Vec<String> = std::env::args().collect();
    let id = args.get(1).map(|s| s.as_str()).unwrap_or("");
    // quiet panic hook: panics of the code under test are caught and reported by the checks themselves
    std::panic::set_hook(Box::new(|_| {}));
    let replay = args
        .iter()
        .position(|a| a == "--replay")
        .and_then(|i| args.get(i + 1).cloned());
    let code = match id {
        "C09" => c09::run(replay),
        "count" => {
            stats::count_families(&args[2..]);
            0
        }
        _ => {
            eprintln!("vcheck: unknown property id `{id}`");
            2
        }
    };
    std::process::exit(code);
}
