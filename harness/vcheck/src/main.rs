fn main(){}
