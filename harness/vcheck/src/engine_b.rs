//! Engine B: enumerated accepted grammars -> real `RustOutput::run` -> rustc (batched, cached by content) ->
//! the emitted parsers run on every input up to the bound inside the batch process (oracles in `vexec`).

use crate::front::try_front;
use rayon::prelude::*;
use serde_json::{json, Value};
use std::collections::BTreeMap;
use std::os::unix::process::CommandExt;
use std::path::{Path, PathBuf};
use std::process::{Command, Stdio};
use vmodel::{Grammar, Rx};

pub const BATCH_SIZE: usize = 50;

pub struct Generated {
    pub grammar: Grammar,
    pub text: String,
    /// bytes written by RustOutput::run
    pub code: String,
    pub warnings: Vec<String>,
}

pub enum GenOutcome {
    Rejected(Vec<String>),
    Ok(Box<Generated>),
    /// RustOutput::run panicked or failed although the grammar was accepted
    GenFailed(String),
}

/// Runs the real front end and, if there is no error diagnostic, the real code generator.
pub fn generate(g: &Grammar, scratch: &Path, id: usize) -> GenOutcome {
    let text = g.text();
    let r = try_front(&text, |fr| {
        if fr.has_error() {
            return GenOutcome::Rejected(fr.error_codes());
        }
        let dir = scratch.join(format!("gen{id}"));
        let _ = std::fs::create_dir_all(&dir);
        let input = dir.join("g.llw");
        let res = std::panic::catch_unwind(std::panic::AssertUnwindSafe(|| {
            lelwel::backend::rust::RustOutput::run(fr.cst, fr.sema, &input, &dir)
        }));
        let out = match res {
            Ok(Ok(())) => match std::fs::read_to_string(dir.join("generated.rs")) {
                Ok(code) => GenOutcome::Ok(Box::new(Generated {
                    grammar: g.clone(),
                    text: text.clone(),
                    code,
                    warnings: fr.codes(),
                })),
                Err(e) => GenOutcome::GenFailed(format!("generated.rs unreadable: {e}")),
            },
            Ok(Err(e)) => GenOutcome::GenFailed(format!("RustOutput::run returned error: {e}")),
            Err(p) => GenOutcome::GenFailed(format!(
                "RustOutput::run panicked: {}",
                p.downcast_ref::<String>()
                    .cloned()
                    .or_else(|| p.downcast_ref::<&str>().map(|s| s.to_string()))
                    .unwrap_or_default()
            )),
        };
        let _ = std::fs::remove_dir_all(&dir);
        out
    });
    // a panic of the front end itself is C12's business; here the grammar simply is not accepted
    r.unwrap_or_else(|p| GenOutcome::Rejected(vec![format!("front-end panic: {p}")]))
}

fn between<'a>(s: &'a str, start: &str, end: &str) -> Option<&'a str> {
    let i = s.find(start)? + start.len();
    let j = s[i..].find(end)? + i;
    Some(&s[i..j])
}

/// Harness module around one emitted parser.
pub fn module_source(name: &str, gen: &Generated, code_path: &Path) -> Result<String, String> {
    let g = &gen.grammar;
    let code = &gen.code;
    // Rule enum variants in declaration order
    let rule_block = between(code, "pub enum Rule {", "}").ok_or("no Rule enum in emitted code")?;
    let variants: Vec<String> = rule_block
        .split(',')
        .map(|s| s.trim().to_string())
        .filter(|s| !s.is_empty())
        .collect();
    // Debug names
    let mut names: BTreeMap<String, String> = BTreeMap::new();
    for line in code.lines() {
        let l = line.trim();
        if let Some(rest) = l.strip_prefix("Rule::") {
            if let Some((pascal, tail)) = rest.split_once(" => write!(f, \"") {
                if let Some(snake) = tail.strip_suffix("\"),") {
                    names.insert(pascal.to_string(), snake.to_string());
                }
            }
        }
    }
    let rule_names: Vec<String> = variants
        .iter()
        .map(|v| names.get(v).cloned().unwrap_or_else(|| format!("?{v}")))
        .collect();
    // trait items
    let trait_src = &code[code
        .find("pub trait ParserCallbacks<'a> {")
        .ok_or("no ParserCallbacks trait in emitted code")?..];
    let mut callbacks = String::new();
    for line in trait_src.lines() {
        let l = line.trim();
        let Some(rest) = l.strip_prefix("fn ") else { continue };
        let fname = rest.split('(').next().unwrap();
        if let Some(n) = fname.strip_prefix("predicate_") {
            if n == "skip" {
                continue;
            }
            callbacks.push_str(&format!(
                "        fn {fname}(&self) -> bool {{ let ans = self.context.consult(); let p = [self.peek(0) as u16, self.peek(1) as u16, self.peek(2) as u16]; self.context.log(Ev {{ kind: EvKind::Pred, name: \"{n}\", pos: self.pos, node: 0, in_choice: self.in_ordered_choice, ok: true, peek: p, answer: ans, node_len: self.cst.data.nodes.len() }}); ans }}\n"
            ));
        } else if let Some(n) = fname.strip_prefix("assertion_") {
            callbacks.push_str(&format!(
                "        fn {fname}(&self) -> Option<Diagnostic> {{ let ans = self.context.consult(); self.context.log(Ev {{ kind: EvKind::Assert, name: \"{n}\", pos: self.pos, node: 0, in_choice: self.in_ordered_choice, ok: true, peek: [0; 3], answer: ans, node_len: self.cst.data.nodes.len() }}); if ans {{ None }} else {{ Some((self.span(), String::from(\"assertion {n} failed\"))) }} }}\n"
            ));
        } else if let Some(n) = fname.strip_prefix("action_") {
            callbacks.push_str(&format!(
                "        fn {fname}(&mut self, _diags: &mut Vec<Diagnostic>) {{ self.context.log(Ev {{ kind: EvKind::Action, name: \"{n}\", pos: self.pos, node: 0, in_choice: self.in_ordered_choice, ok: true, peek: [0; 3], answer: true, node_len: self.cst.data.nodes.len() }}); }}\n"
            ));
        } else if let Some(n) = fname.strip_prefix("create_node_") {
            // (a name that cannot be found means the emitted enum is already inconsistent, e.g. two rule
            // names mapping to one variant: let rustc report that)
            let idx = rule_names.iter().position(|x| x == n).unwrap_or(0);
            callbacks.push_str(&format!(
                "        fn {fname}(&mut self, n: NodeRef, _diags: &mut Vec<Diagnostic>) {{ let ok = vexec::tree::subtree_ok(&copy_nodes(&self.cst.data.nodes), n.0, {idx}); self.context.log(Ev {{ kind: EvKind::Create, name: \"{n}\", pos: self.pos, node: n.0, in_choice: self.in_ordered_choice, ok, peek: [0; 3], answer: true, node_len: self.cst.data.nodes.len() }}); }}\n"
            ));
        } else if let Some(n) = fname.strip_prefix("delete_node_") {
            callbacks.push_str(&format!(
                "        fn {fname}(&mut self, n: NodeRef) {{ self.context.log(Ev {{ kind: EvKind::Delete, name: \"{n}\", pos: self.pos, node: n.0, in_choice: self.in_ordered_choice, ok: true, peek: [0; 3], answer: true, node_len: self.cst.data.nodes.len() }}); }}\n"
            ));
        }
    }
    // Token enum: EOF, EOF<Part>..., declared tokens, Error
    let mut tokens = vec!["EOF".to_string()];
    for p in &g.parts {
        tokens.push(format!("EOF{}", vmodel::bnf::pascal(&g.rules[*p].name)));
    }
    for t in &g.tokens {
        tokens.push(t.name.clone());
    }
    tokens.push("Error".to_string());
    let mut lex = String::new();
    for (i, t) in g.tokens.iter().enumerate() {
        lex.push_str(&format!("b'{}' => Token::{}, ", (b'a' + i as u8) as char, t.name));
    }
    let mut entries = String::from("0 => parser.parse(&mut diags), ");
    for (k, p) in g.parts.iter().enumerate() {
        entries.push_str(&format!("{} => parser.parse_{}(&mut diags), ", k + 1, g.rules[*p].name));
    }
    Ok(format!(
        r#"#[allow(warnings)]
pub mod {name} {{
    use vexec::{{ApiNode, Env, Ev, EvKind, ONode, Obs, Script}};
    #[derive(Debug, PartialEq, Copy, Clone)]
    #[repr(u16)]
    pub enum Token {{ {token_list} }}
    pub const TOKEN_NAMES: &[&str] = &[{token_names}];
    pub const RULE_NAMES: &[&str] = &[{rule_names}];
    pub type Diagnostic = (Span, String);
    include!({code_path:?});
    impl<'a> ParserCallbacks<'a> for Parser<'a> {{
        type Diagnostic = Diagnostic;
        type Context = Env;
        fn create_tokens(_c: &mut Env, source: &'a str, _d: &mut Vec<Diagnostic>) -> (Vec<Token>, Vec<Span>) {{
            let mut t = vec![];
            let mut s = vec![];
            for (i, b) in source.bytes().enumerate() {{
                t.push(match b {{ {lex}_ => Token::Error }});
                s.push(i..i + 1);
            }}
            (t, s)
        }}
        fn create_diagnostic(&self, span: Span, message: String) -> Diagnostic {{ (span, message) }}
{callbacks}    }}
    fn copy_nodes(nodes: &[Node]) -> Vec<ONode> {{
        nodes.iter().map(|n| match n {{
            Node::Rule(r, e) => ONode::Rule(*r as u16, usize::from(*e)),
            Node::Token(t, i) => ONode::Token(*t as u16, usize::from(*i)),
        }}).collect()
    }}
    fn walk(cst: &Cst<'_>, n: NodeRef, depth: usize, out: &mut Vec<ApiNode>) {{
        if depth > 500 || out.len() > 200_000 {{ panic!("API walk of the returned tree does not terminate"); }}
        let sp = cst.span(n);
        match cst.get(n) {{
            Node::Rule(r, _) => {{
                let at = out.len();
                out.push(ApiNode {{ index: n.0, is_rule: true, kind: r as u16, span: (sp.start, sp.end), children: vec![], depth }});
                let kids: Vec<NodeRef> = cst.children(n).collect();
                out[at].children = kids.iter().map(|k| k.0).collect();
                for k in kids {{ walk(cst, k, depth + 1, out); }}
            }}
            Node::Token(t, _) => out.push(ApiNode {{ index: n.0, is_rule: false, kind: t as u16, span: (sp.start, sp.end), children: vec![], depth }}),
        }}
    }}
    fn rule_of(kind: u16) -> Rule {{
        match kind {{ {rule_of}_ => Rule::Error }}
    }}
    fn walk_data(d: &CstData, n: NodeRef, depth: usize, out: &mut Vec<ApiNode>) {{
        if depth > 500 || out.len() > 200_000 {{ panic!("API walk of the tree does not terminate"); }}
        let sp = d.span(n);
        match d.get(n) {{
            Node::Rule(r, _) => {{
                let at = out.len();
                out.push(ApiNode {{ index: n.0, is_rule: true, kind: r as u16, span: (sp.start, sp.end), children: vec![], depth }});
                let kids: Vec<NodeRef> = d.children(n).collect();
                out[at].children = kids.iter().map(|k| k.0).collect();
                for k in kids {{ walk_data(d, k, depth + 1, out); }}
            }}
            Node::Token(t, _) => out.push(ApiNode {{ index: n.0, is_rule: false, kind: if t == Token::Error {{ 1 }} else {{ 0 }}, span: (sp.start, sp.end), children: vec![], depth }}),
        }}
    }}
    pub struct B {{ d: CstData }}
    impl vexec::history::Builder for B {{
        fn reset(&mut self, n: usize) {{ self.d = CstData::new((0..n).map(|i| i..i + 1).collect()); }}
        fn open(&mut self) -> usize {{ self.d.open().0 }}
        fn close(&mut self, m: usize, kind: u16) -> usize {{ self.d.close(MarkOpened(m), rule_of(kind)).0 }}
        fn close_root(&mut self, m: usize, kind: u16) -> usize {{ self.d.close_root(MarkOpened(m), rule_of(kind)).0 }}
        fn advance(&mut self, _tok: u16, skip: bool) {{ self.d.advance(if skip {{ Token::Error }} else {{ Token::{first_token} }}, skip) }}
        fn open_before(&mut self, m: usize) -> usize {{ self.d.open_before(MarkClosed(m)).0 }}
        fn mark(&self) -> usize {{ self.d.mark().0 }}
        fn snapshot(&self) -> (usize, usize, usize) {{ let t = self.d.mark_truncation(); (t.node_count, t.token_count, t.non_skip_len) }}
        fn truncate(&mut self, s: (usize, usize, usize)) {{ self.d.truncate(MarkTruncation {{ node_count: s.0, token_count: s.1, non_skip_len: s.2 }}) }}
        fn nodes(&self) -> Vec<ONode> {{
            self.d.nodes.iter().map(|n| match n {{
                Node::Rule(r, e) => ONode::Rule(*r as u16, usize::from(*e)),
                Node::Token(t, i) => ONode::Token(if *t == Token::Error {{ 1 }} else {{ 0 }}, usize::from(*i)),
            }}).collect()
        }}
        fn api(&self) -> Result<Vec<ApiNode>, String> {{
            let mut out = vec![];
            std::panic::catch_unwind(std::panic::AssertUnwindSafe(|| walk_data(&self.d, NodeRef::ROOT, 0, &mut out)))
                .map_err(|p| p.downcast_ref::<String>().cloned().or_else(|| p.downcast_ref::<&str>().map(|s| s.to_string())).unwrap_or_else(|| "panic".to_string()))?;
            Ok(out)
        }}
    }}
    pub struct S;
    impl vexec::Subject for S {{
        fn builder(&self) -> Box<dyn vexec::history::Builder> {{ Box::new(B {{ d: CstData::new(vec![]) }}) }}
        fn rule_names(&self) -> &'static [&'static str] {{ RULE_NAMES }}
        fn token_names(&self) -> &'static [&'static str] {{ TOKEN_NAMES }}
        fn run(&self, entry: usize, input: &[u8], script: &Script) -> Obs {{
            let src = std::str::from_utf8(input).expect("ascii input");
            let env = Env::new(script);
            let env2 = env.clone();
            let res = std::panic::catch_unwind(std::panic::AssertUnwindSafe(|| {{
                let mut diags: Vec<Diagnostic> = vec![];
                let parser = Parser::new_with_context(src, &mut diags, env2);
                let cst = match entry {{ {entries}_ => panic!("no such entry") }};
                let mut obs = Obs::default();
                obs.nodes = copy_nodes(&cst.data.nodes);
                obs.spans = cst.data.spans.iter().map(|s| (s.start, s.end)).collect();
                obs.diags = diags.iter().map(|(s, m)| (s.start, s.end, m.clone())).collect();
                let mut api = vec![];
                let w = std::panic::catch_unwind(std::panic::AssertUnwindSafe(|| walk(&cst, NodeRef::ROOT, 0, &mut api)));
                if let Err(p) = w {{
                    obs.walk_panic = Some(p.downcast_ref::<String>().cloned().or_else(|| p.downcast_ref::<&str>().map(|s| s.to_string())).unwrap_or_else(|| "panic".to_string()));
                }}
                obs.api = api;
                obs
            }}));
            let mut obs = match res {{
                Ok(o) => o,
                Err(p) => {{
                    let mut o = Obs::default();
                    o.panic = Some(p.downcast_ref::<String>().cloned().or_else(|| p.downcast_ref::<&str>().map(|s| s.to_string())).unwrap_or_else(|| "panic".to_string()));
                    o
                }}
            }};
            let mut inner = env.0.borrow_mut();
            obs.log = std::mem::take(&mut inner.log);
            obs.consulted = inner.consulted;
            obs
        }}
    }}
}}
"#,
        rule_of = variants
            .iter()
            .enumerate()
            .map(|(i, v)| format!("{i} => Rule::{v}, "))
            .collect::<String>(),
        first_token = g.tokens[0].name,
        token_list = tokens.join(", "),
        token_names = tokens
            .iter()
            .map(|t| format!("{t:?}"))
            .collect::<Vec<_>>()
            .join(", "),
        rule_names = rule_names
            .iter()
            .map(|t| format!("{t:?}"))
            .collect::<Vec<_>>()
            .join(", "),
    ))
}

pub struct BatchPaths {
    pub target: PathBuf,
    pub vexec_rlib: PathBuf,
    pub deps: PathBuf,
    pub cache: PathBuf,
}

pub fn batch_paths() -> BatchPaths {
    let exe = std::env::current_exe().expect("current_exe");
    let target = exe.parent().unwrap().to_path_buf();
    // the newest libvexec rlib cargo produced (the uplifted copy in target/release is only refreshed when
    // vexec itself is a root of the build)
    let mut newest: Option<(std::time::SystemTime, PathBuf)> = None;
    if let Ok(rd) = std::fs::read_dir(target.join("deps")) {
        for e in rd.flatten() {
            let name = e.file_name().to_string_lossy().to_string();
            if name.starts_with("libvexec-") && name.ends_with(".rlib") {
                if let Ok(m) = e.metadata().and_then(|m| m.modified()) {
                    if newest.as_ref().is_none_or(|(t, _)| m > *t) {
                        newest = Some((m, e.path()));
                    }
                }
            }
        }
    }
    BatchPaths {
        vexec_rlib: newest.map(|(_, p)| p).unwrap_or_else(|| target.join("libvexec.rlib")),
        deps: target.join("deps"),
        cache: vcommon::verif_dir().join(".cache").join("batches"),
        target,
    }
}

pub struct Batch {
    pub first: usize,
    pub members: Vec<usize>,
    pub binary: Result<PathBuf, String>,
}

/// Writes sources for one batch, compiles (or takes from the cache) and returns the binary path.
pub fn build_batch(gens: &[&Generated], ids: &[usize], paths: &BatchPaths, scratch: &Path, tag: usize) -> Result<PathBuf, String> {
    let dir = scratch.join(format!("batch{tag}"));
    std::fs::create_dir_all(&dir).map_err(|e| e.to_string())?;
    let mut main = String::new();
    let mut module_starts: Vec<(usize, usize)> = vec![];
    let mut hash_input = String::new();
    let rlib_meta = std::fs::metadata(&paths.vexec_rlib).map_err(|e| format!("libvexec.rlib: {e}"))?;
    hash_input.push_str(&format!(
        "{:?}{}",
        rlib_meta.modified().ok(),
        rlib_meta.len()
    ));
    for (gen, id) in gens.iter().zip(ids) {
        let name = format!("g{id:06}");
        let code_path = dir.join(format!("{name}.rs"));
        std::fs::write(&code_path, &gen.code).map_err(|e| e.to_string())?;
        // the hash must not depend on the scratch path: hash a path-free rendering
        let module_for_hash = module_source(&name, gen, Path::new("CODE"))?;
        hash_input.push_str(&module_for_hash);
        hash_input.push_str(&gen.code);
        hash_input.push_str(&vmodel::sexp::to_sexp(&gen.grammar));
        module_starts.push((main.lines().count() + 1, *id));
        main.push_str(&module_source(&name, gen, &code_path)?);
    }
    main.push_str("fn main() {\n    vexec::driver::main_batch(&[\n");
    for (gen, id) in gens.iter().zip(ids) {
        main.push_str(&format!(
            "        vexec::driver::Job {{ sexp: {:?}, subject: &g{id:06}::S }},\n",
            vmodel::sexp::to_sexp(&gen.grammar)
        ));
    }
    main.push_str("    ]);\n}\n");
    let hash = vcommon::content_hash(hash_input.as_bytes());
    let cached = paths.cache.join(&hash);
    if cached.exists() {
        // refresh mtime for LRU eviction
        let _ = Command::new("touch").arg(&cached).status();
        let _ = std::fs::remove_dir_all(&dir);
        return Ok(cached);
    }
    let src = dir.join("batch.rs");
    std::fs::write(&src, &main).map_err(|e| e.to_string())?;
    let out = dir.join("batch.bin");
    let output = Command::new("rustc")
        .args(["--edition", "2021", "-C", "opt-level=0", "-C", "debuginfo=0", "-C", "debug-assertions=on", "-C", "overflow-checks=on", "-A", "warnings", "--crate-name", "batch"])
        .arg("--extern")
        .arg(format!("vexec={}", paths.vexec_rlib.display()))
        .arg("-L")
        .arg(format!("dependency={}", paths.deps.display()))
        .arg("-o")
        .arg(&out)
        .arg(&src)
        .output()
        .map_err(|e| format!("cannot run rustc: {e}"))?;
    if !output.status.success() {
        let err = String::from_utf8_lossy(&output.stderr).to_string();
        let _ = std::fs::remove_dir_all(&dir);
        // culprits = modules holding the primary location of an error (the `-->` line right after an `error`
        // header; locations inside notes may point into innocent modules)
        let mut culprits: Vec<usize> = vec![];
        let mut after_header = false;
        for line in err.lines() {
            if line.starts_with("error") {
                after_header = true;
                continue;
            }
            if after_header {
                after_header = false;
                let Some(pos) = line.find("--> ") else { continue };
                let loc = &line[pos + 4..];
                let id = if let Some(g) = loc.rfind("/g") {
                    let digits: String = loc[g + 2..].chars().take_while(|c| c.is_ascii_digit()).collect();
                    if loc[g + 2 + digits.len()..].starts_with(".rs") { digits.parse::<usize>().ok() } else { None }
                } else {
                    None
                };
                let id = id.or_else(|| {
                    // a location in batch.rs: find the module by line number
                    let rest = loc.rsplit("batch.rs:").next()?;
                    let ln: usize = rest.split(':').next()?.parse().ok()?;
                    module_starts.iter().rev().find(|(start, _)| *start <= ln).map(|(_, id)| *id)
                });
                if let Some(id) = id {
                    if !culprits.contains(&id) {
                        culprits.push(id);
                    }
                }
            }
        }
        let head = format!("CULPRITS:{}\n", culprits.iter().map(|c| format!(" {c}")).collect::<String>());
        return Err(head + &err);
    }
    std::fs::create_dir_all(&paths.cache).map_err(|e| e.to_string())?;
    let tmp = paths.cache.join(format!("{hash}.tmp{}", std::process::id()));
    std::fs::copy(&out, &tmp).map_err(|e| e.to_string())?;
    std::fs::rename(&tmp, &cached).map_err(|e| e.to_string())?;
    if std::env::var("VERIF_KEEP").is_err() {
        let _ = std::fs::remove_dir_all(&dir);
    }
    Ok(cached)
}

/// keeps the batch cache below ~30 GB (least recently used first)
pub fn evict_cache(paths: &BatchPaths) {
    let Ok(rd) = std::fs::read_dir(&paths.cache) else { return };
    let mut files: Vec<(std::time::SystemTime, u64, PathBuf)> = rd
        .filter_map(|e| e.ok())
        .filter_map(|e| {
            let m = e.metadata().ok()?;
            Some((m.modified().ok()?, m.len(), e.path()))
        })
        .collect();
    files.sort();
    let mut total: u64 = files.iter().map(|f| f.1).sum();
    for (_, len, p) in files {
        if total < 30_000_000_000 {
            break;
        }
        let _ = std::fs::remove_file(&p);
        total -= len;
    }
}

pub struct RunResult {
    /// RESULT json per job index within the batch
    pub results: BTreeMap<usize, Value>,
    /// (job index, description) for crashes / kills
    pub crashes: Vec<(usize, String)>,
}

fn run_once(bin: &Path, args: &[String], cpu_secs: u64) -> (String, std::process::ExitStatus) {
    let mut cmd = Command::new(bin);
    cmd.args(args).stdout(Stdio::piped()).stderr(Stdio::null());
    unsafe {
        cmd.pre_exec(move || {
            let cpu = libc::rlimit {
                rlim_cur: cpu_secs,
                rlim_max: cpu_secs + 2,
            };
            libc::setrlimit(libc::RLIMIT_CPU, &cpu);
            let mem = libc::rlimit {
                rlim_cur: 4 << 30,
                rlim_max: 4 << 30,
            };
            libc::setrlimit(libc::RLIMIT_AS, &mem);
            Ok(())
        });
    }
    let out = cmd.output().expect("run batch binary");
    (String::from_utf8_lossy(&out.stdout).to_string(), out.status)
}

/// Runs a batch binary over all its jobs; a crash (abort, stack overflow, CPU limit) is attributed to a job
/// and then to an input by re-running that job in trace mode; the remaining jobs continue.
pub fn run_batch(bin: &Path, njobs: usize, args: &[String]) -> RunResult {
    let mut res = RunResult {
        results: BTreeMap::new(),
        crashes: vec![],
    };
    let mut from = 0usize;
    while from < njobs {
        let mut a = args.to_vec();
        a.push("--from".into());
        a.push(from.to_string());
        let (out, status) = run_once(bin, &a, 300);
        let mut last_start = None;
        let mut done = false;
        for line in out.lines() {
            if let Some(i) = line.strip_prefix("START ") {
                last_start = i.trim().parse::<usize>().ok();
            } else if let Some(j) = line.strip_prefix("RESULT ") {
                match serde_json::from_str::<Value>(j) {
                    Ok(v) => {
                        let idx = v["job"].as_u64().unwrap() as usize;
                        res.results.insert(idx, v);
                    }
                    Err(e) => vcommon::machinery_failure(&format!("unparsable RESULT line: {e}: {j}")),
                }
            } else if line == "DONE" {
                done = true;
            } else if line.starts_with("MACHINERY ") {
                vcommon::machinery_failure(line);
            }
        }
        if done && status.success() {
            break;
        }
        let Some(bad) = last_start else {
            vcommon::machinery_failure(&format!("batch {} died before starting a job: {status:?}", bin.display()));
        };
        if res.results.contains_key(&bad) {
            vcommon::machinery_failure(&format!("batch {} died between jobs: {status:?}", bin.display()));
        }
        // attribute to an input
        let mut t = args.to_vec();
        t.extend(["--only".into(), bad.to_string(), "--trace".into()]);
        let (tout, tstatus) = run_once(bin, &t, 30);
        let last_trace = tout
            .lines()
            .filter(|l| l.starts_with("TRACE "))
            .last()
            .unwrap_or("TRACE ?")
            .to_string();
        res.crashes.push((
            bad,
            format!("process died ({status:?}; in trace mode {tstatus:?}) while running {last_trace}"),
        ));
        from = bad + 1;
    }
    res
}

/// Everything engine B produced for one family.
pub struct BOutcome {
    pub gens: Vec<Generated>,
    pub rejected: usize,
    pub gen_failures: Vec<(Grammar, String)>,
    pub compile_failures: Vec<(usize, String)>,
    /// per generated grammar: RESULT json
    pub results: Vec<Option<Value>>,
    pub crashes: Vec<(usize, String)>,
    pub cache_hits: usize,
    pub batches: usize,
    /// one compiled batch (engine C runs the tree-builder history exploration on its first parser)
    pub first_bin: Option<PathBuf>,
}

pub fn flags(props: &str, len_full: usize, len: usize, len_trivia: usize, dev: usize) -> Vec<String> {
    vec![
        "--props".into(),
        props.into(),
        "--len-full".into(),
        len_full.to_string(),
        "--len".into(),
        len.to_string(),
        "--len-trivia".into(),
        len_trivia.to_string(),
        "--dev".into(),
        dev.to_string(),
    ]
}

/// Generates, compiles and runs. `args` are passed to every batch binary.
pub fn run_family(grammars: &[Grammar], args: &[String], run: bool) -> BOutcome {
    // scratch: a memory file system when there is one (many small files are written and read back)
    let shm = PathBuf::from(format!("/dev/shm/verif-b-{}", std::process::id()));
    let scratch = if std::env::var("VERIF_KEEP").is_err() && std::fs::create_dir_all(&shm).is_ok() {
        shm
    } else {
        vcommon::scratch_dir(&format!("b-{}", std::process::id()))
    };
    let paths = batch_paths();
    // 1. generate (parallel, in-process)
    let outcomes: Vec<GenOutcome> = grammars
        .par_iter()
        .enumerate()
        .map(|(i, g)| generate(g, &scratch, i))
        .collect();
    let mut gens = vec![];
    let mut rejected = 0;
    let mut gen_failures = vec![];
    for (o, g) in outcomes.into_iter().zip(grammars) {
        match o {
            GenOutcome::Rejected(_) => rejected += 1,
            GenOutcome::Ok(b) => gens.push(*b),
            GenOutcome::GenFailed(e) => gen_failures.push((g.clone(), e)),
        }
    }
    // 2. batches
    let ids: Vec<usize> = (0..gens.len()).collect();
    let chunks: Vec<(usize, &[usize])> = ids.chunks(BATCH_SIZE).enumerate().collect();
    let before: usize = std::fs::read_dir(&paths.cache).map(|d| d.count()).unwrap_or(0);
    struct Built {
        members: Vec<usize>,
        bin: PathBuf,
    }
    let built: Vec<(Vec<Built>, Vec<(usize, String)>)> = chunks
        .par_iter()
        .map(|(tag, members)| {
            let refs: Vec<&Generated> = members.iter().map(|i| &gens[*i]).collect();
            match build_batch(&refs, members, &paths, &scratch, *tag) {
                Ok(bin) => (
                    vec![Built {
                        members: members.to_vec(),
                        bin,
                    }],
                    vec![],
                ),
                Err(first_err) => {
                    // name the culprits from rustc's error locations (`--> .../gNNNNNN.rs:line`), rebuild the
                    // batch without them; fall back to compiling every member alone
                    let mut bad: Vec<(usize, String)> = vec![];
                    let mut rest: Vec<usize> = members.to_vec();
                    let mut err = first_err;
                    let mut ok = vec![];
                    for round in 0..4 {
                        let culprits: Vec<usize> = err
                            .lines()
                            .next()
                            .and_then(|l| l.strip_prefix("CULPRITS:"))
                            .map(|l| l.split_whitespace().filter_map(|x| x.parse().ok()).filter(|id| rest.contains(id)).collect())
                            .unwrap_or_default();
                        if culprits.is_empty() {
                            break;
                        }
                        for c in &culprits {
                            let mut msg: String = err
                                .split("\nerror")
                                .skip(1)
                                .filter(|chunk| {
                                    chunk.lines().nth(1).is_some_and(|l| l.contains(&format!("/g{c:06}.rs")))
                                })
                                .map(|chunk| format!("error{chunk}"))
                                .collect::<Vec<_>>()
                                .join("\n");
                            if msg.is_empty() {
                                msg = err.lines().skip(1).collect::<Vec<_>>().join("\n");
                            }
                            bad.push((*c, msg));
                        }
                        rest.retain(|i| !culprits.contains(i));
                        if rest.is_empty() {
                            break;
                        }
                        let refs: Vec<&Generated> = rest.iter().map(|i| &gens[*i]).collect();
                        match build_batch(&refs, &rest, &paths, &scratch, 2_000_000 + tag * 10 + round) {
                            Ok(bin) => {
                                ok.push(Built {
                                    members: rest.clone(),
                                    bin,
                                });
                                rest.clear();
                                break;
                            }
                            Err(e) => err = e,
                        }
                    }
                    for (k, i) in rest.iter().enumerate() {
                        match build_batch(&[&gens[*i]], &[*i], &paths, &scratch, 1_000_000 + tag * BATCH_SIZE + k) {
                            Ok(bin) => ok.push(Built {
                                members: vec![*i],
                                bin,
                            }),
                            Err(e) => bad.push((*i, e)),
                        }
                    }
                    (ok, bad)
                }
            }
        })
        .collect();
    let mut compile_failures = vec![];
    let mut bins = vec![];
    for (ok, bad) in built {
        bins.extend(ok);
        compile_failures.extend(bad);
    }
    let after: usize = std::fs::read_dir(&paths.cache).map(|d| d.count()).unwrap_or(0);
    let batches = bins.len();
    let first_bin = bins.first().map(|b| b.bin.clone());
    let cache_hits = batches.saturating_sub(after.saturating_sub(before));
    // 3. run
    let mut results: Vec<Option<Value>> = vec![None; gens.len()];
    let mut crashes = vec![];
    if run {
        let outs: Vec<(Vec<usize>, RunResult)> = bins
            .par_iter()
            .map(|b| (b.members.clone(), run_batch(&b.bin, b.members.len(), args)))
            .collect();
        for (members, rr) in outs {
            for (k, v) in rr.results {
                results[members[k]] = Some(v);
            }
            for (k, d) in rr.crashes {
                crashes.push((members[k], d));
            }
        }
    }
    evict_cache(&paths);
    if std::env::var("VERIF_KEEP").is_err() {
        vcommon::remove_dir(&scratch);
    }
    BOutcome {
        gens,
        rejected,
        gen_failures,
        compile_failures,
        results,
        crashes,
        cache_hits,
        batches,
        first_bin,
    }
}

/// Aggregated verdicts of one property over a BOutcome.
pub fn collect(prop: &str, out: &BOutcome, rep: &mut vcommon::Report) -> Value {
    let mut execs = 0u64;
    let mut evals = 0u64;
    let mut nontrivial = 0u64;
    let mut outcomes = 0u64;
    let mut samples = vec![];
    for (i, r) in out.results.iter().enumerate() {
        let Some(r) = r else { continue };
        execs += r["execs"].as_u64().unwrap_or(0);
        evals += r["evals"][prop].as_u64().unwrap_or(0);
        nontrivial += r["nontrivial"][prop].as_u64().unwrap_or(0);
        outcomes += r["outcomes"].as_u64().unwrap_or(0);
        if samples.len() < 3 && r["outcomes"].as_u64().unwrap_or(0) > 3 {
            samples.push(json!({"grammar": out.gens[i].text, "executions": r["execs"], "distinct_outcomes": r["outcomes"]}));
        }
        for v in r["viols"].as_array().cloned().unwrap_or_default() {
            if v["prop"] != prop {
                continue;
            }
            let g = &out.gens[i];
            let clause = v["clause"].as_str().unwrap_or("");
            rep.violation(vcommon::Violation {
                key: format!("{prop}:{clause}:{}", shape_class(&g.grammar)),
                summary: format!(
                    "{prop} {clause}: grammar `{}` entry {} input `{}` script {}: {}",
                    g.text.trim().replace('\n', " "),
                    v["entry"],
                    v["input"].as_str().unwrap_or(""),
                    v["script"],
                    v["detail"].as_str().unwrap_or("")
                ),
                replay: json!({"grammar": g.text, "sexp": vmodel::sexp::to_sexp(&g.grammar), "entry": v["entry"], "input": v["input"],
                    "script": v["script"], "detail": v["detail"], "extra": v["extra"], "clause": clause}),
            });
        }
    }
    json!({
        "grammars_generated": out.gens.len(),
        "grammars_rejected_by_lelwel": out.rejected,
        "executions": execs,
        "evaluations": evals,
        "nontrivial": nontrivial,
        "outcomes": outcomes,
        "batches": out.batches,
        "batch_cache_hits": out.cache_hits,
        "samples": samples,
    })
}

/// Coarse structural class of a grammar used in violation keys (so that one defect manifesting on thousands
/// of grammars of one shape gets one key, while another shape gets another).
pub fn shape_class(g: &Grammar) -> String {
    if g.hidden_left_recursion() {
        return "hidden-left-recursion".to_string();
    }
    if g.rules[g.start]
        .body
        .as_ref()
        .is_some_and(|b| b.contains(&|r| matches!(r, Rx::Rename(_))))
    {
        return "rename-in-start-rule".to_string();
    }
    let mut f = vec![];
    let has = |p: &dyn Fn(&Rx) -> bool| g.contains(p);
    if has(&|r| matches!(r, Rx::Choice(_))) {
        f.push("choice");
    }
    if has(&|r| matches!(r, Rx::Commit)) {
        f.push("commit");
    }
    if has(&|r| matches!(r, Rx::Return)) {
        f.push("return");
    }
    if has(&|r| matches!(r, Rx::Pred(Some(_)))) {
        f.push("pred");
    }
    if has(&|r| matches!(r, Rx::Pred(None))) {
        f.push("truepred");
    }
    if has(&|r| matches!(r, Rx::Assert(_))) {
        f.push("assert");
    }
    if has(&|r| matches!(r, Rx::Marker(_) | Rx::Create(..))) {
        f.push("create");
    }
    if has(&|r| matches!(r, Rx::Elide)) || g.rules.iter().any(|r| r.elided) {
        f.push("elide");
    }
    if has(&|r| matches!(r, Rx::Rename(_))) {
        f.push("rename");
    }
    if !g.parts.is_empty() {
        f.push("parts");
    }
    if !g.right.is_empty() {
        f.push("right");
    }
    // direct left recursion
    for (i, r) in g.rules.iter().enumerate() {
        if let Some(Rx::Alt(bs)) = &r.body {
            if bs.iter().any(|b| match b {
                Rx::Concat(v) => v
                    .iter()
                    .find(|x| !matches!(x, Rx::Pred(_) | Rx::Rename(_) | Rx::Elide | Rx::Action(_)))
                    .is_some_and(|x| *x == Rx::Ref(i)),
                _ => false,
            }) {
                f.push("leftrec");
                break;
            }
        }
    }
    if f.is_empty() {
        "ebnf".to_string()
    } else {
        f.join("+")
    }
}

/// Engine C: explicit-state exploration of tree-builder histories on the real `CstData` of one emitted parser.
pub fn run_history(bin: &Path, depth: usize) -> Result<Value, String> {
    let (out, status) = run_once(bin, &["--history".to_string(), depth.to_string(), "--only".to_string(), "0".to_string()], 600);
    if !status.success() {
        return Err(format!("history exploration died: {status:?}"));
    }
    let line = out
        .lines()
        .find_map(|l| l.strip_prefix("HISTORY "))
        .ok_or("no HISTORY line")?;
    serde_json::from_str(line).map_err(|e| e.to_string())
}
