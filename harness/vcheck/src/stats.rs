//! Shared helpers for the in-process engine (A): parallel family traversal and counters.

use rayon::prelude::*;
use std::collections::BTreeMap;
use vcommon::Violation;
use vmodel::families::{ebnf_for_each, ebnf_units, EbnfBound, ShapeCfg, Shapes};
use vmodel::Grammar;

#[derive(Default)]
pub struct Acc {
    pub counters: BTreeMap<&'static str, u64>,
    pub violations: Vec<Violation>,
    pub violation_total: u64,
    pub samples: Vec<serde_json::Value>,
    pub outcomes: std::collections::HashSet<u64>,
}

impl Acc {
    pub fn inc(&mut self, k: &'static str) {
        *self.counters.entry(k).or_insert(0) += 1;
    }
    pub fn add(&mut self, k: &'static str, n: u64) {
        *self.counters.entry(k).or_insert(0) += n;
    }
    pub fn get(&self, k: &str) -> u64 {
        self.counters.get(k).copied().unwrap_or(0)
    }
    pub fn violation(&mut self, v: Violation) {
        self.violation_total += 1;
        // keep at most a few per key
        let same = self.violations.iter().filter(|x| x.key == v.key).count();
        if same < 3 && self.violations.len() < 200 {
            self.violations.push(v);
        }
    }
    /// records a signature of an observed outcome (vacuity signal: number of distinct outcomes)
    pub fn outcome(&mut self, sig: &str) {
        use std::hash::{Hash, Hasher};
        let mut h = std::collections::hash_map::DefaultHasher::new();
        sig.hash(&mut h);
        self.outcomes.insert(h.finish());
    }
    pub fn sample(&mut self, v: serde_json::Value) {
        if self.samples.len() < 4 {
            self.samples.push(v);
        }
    }
    pub fn merge(mut self, other: Acc) -> Acc {
        for (k, v) in other.counters {
            *self.counters.entry(k).or_insert(0) += v;
        }
        self.violation_total += other.violation_total;
        for v in other.violations {
            let same = self.violations.iter().filter(|x| x.key == v.key).count();
            if same < 3 && self.violations.len() < 200 {
                self.violations.push(v);
            }
        }
        for s in other.samples {
            if self.samples.len() < 6 {
                self.samples.push(s);
            }
        }
        if self.outcomes.len() < other.outcomes.len() {
            let mut o = other.outcomes;
            o.extend(self.outcomes.drain());
            self.outcomes = o;
        } else {
            self.outcomes.extend(other.outcomes);
        }
        self
    }
}

pub fn ebnf_bound(leaves: usize, unary: usize, max_rules: usize, choice: bool) -> EbnfBound {
    EbnfBound {
        leaves,
        unary,
        max_rules,
        max_tokens: 3,
        cfg: ShapeCfg {
            choice,
            paren_concat: false,
        },
    }
}

/// Runs `f` on every grammar of the EBNF family in parallel (work units = start-rule shapes).
pub fn par_ebnf(b: &EbnfBound, f: &(dyn Fn(&Grammar, &mut Acc) + Sync)) -> Acc {
    let units = ebnf_units(b);
    units
        .par_iter()
        .map_init(
            || Shapes::new(b.cfg),
            |shapes, unit| {
                let mut acc = Acc::default();
                ebnf_for_each(b, unit, shapes, &mut |g| f(g, &mut acc));
                acc
            },
        )
        .reduce(Acc::default, Acc::merge)
}

/// Runs `f` on every grammar of an explicit list in parallel.
pub fn par_list(list: &[Grammar], f: &(dyn Fn(&Grammar, &mut Acc) + Sync)) -> Acc {
    list.par_chunks(64)
        .map(|chunk| {
            let mut acc = Acc::default();
            for g in chunk {
                f(g, &mut acc);
            }
            acc
        })
        .reduce(Acc::default, Acc::merge)
}

pub fn count_list(name: &str, list: &[Grammar]) {
    let t = std::time::Instant::now();
    let acc = par_list(list, &|g, acc| {
        acc.inc("grammars");
        let r = crate::front::try_front(&g.text(), |fr| {
            if !fr.has_error() {
                acc.inc("accepted");
                if g.fully_productive() {
                    acc.inc("accepted_productive");
                }
            } else {
                for c in fr.error_codes() {
                    let c: &'static str = Box::leak(c.into_boxed_str());
                    acc.inc(c);
                }
            }
        });
        if r.is_err() {
            acc.inc("front_end_panic");
        }
    });
    println!("{name}: {:?} in {:.1}s", acc.counters, t.elapsed().as_secs_f64());
}

pub fn count_families(args: &[String]) {
    if args.first().is_some_and(|a| a == "special") {
        use vmodel::families::*;
        for (b, o) in [(1, 2), (2, 2), (2, 3), (3, 2)] {
            let mut v = vec![];
            pratt_family(b, o, &mut |g| v.push(g.clone()));
            count_list(&format!("pratt({b},{o})"), &v);
        }
        for k in [1, 2] {
            count_list(&format!("node({k})"), &node_family(k, &node_bases()));
        }
        count_list("pred(2,1,2;1)", &pred_family(&ebnf_bound(2, 1, 2, false), 1));
        count_list("pred(2,1,2;2)", &pred_family(&ebnf_bound(2, 1, 2, false), 2));
        count_list("pred(3,0,2;1)", &pred_family(&ebnf_bound(3, 0, 2, false), 1));
        count_list("pred(3,1,1;1)", &pred_family(&ebnf_bound(3, 1, 1, false), 1));
        count_list("choice(3,1,2;1)", &choice_family(&ebnf_bound(3, 1, 2, false), 1));
        count_list("choice(3,0,2;2)", &choice_family(&ebnf_bound(3, 0, 2, false), 2));
        count_list("choice(4,0,2;0)", &choice_family(&ebnf_bound(4, 0, 2, false), 0));
        let two: Vec<Grammar> = choice_family(&ebnf_bound(4, 0, 2, false), 0).into_iter().filter(|g| g.rules.len() == 2).collect();
        count_list("choice(4,0,2;0) two-rule", &two);
        count_list("pred(3,1,2;1)", &pred_family(&ebnf_bound(3, 1, 2, false), 1));
        count_list("pred(3,1,2;2)", &pred_family(&ebnf_bound(3, 1, 2, false), 2));
        count_list("pred(4,1,2;1)", &pred_family(&ebnf_bound(4, 1, 2, false), 1));
        count_list("choice(3,0,2;1)", &choice_family(&ebnf_bound(3, 0, 2, false), 1));
        count_list("choice(4,0,2;1)", &choice_family(&ebnf_bound(4, 0, 2, false), 1));
        count_list("choice(4,1,2;1)", &choice_family(&ebnf_bound(4, 1, 2, false), 1));
        count_list("parts(3,1,3)", &parts_family(&ebnf_bound(3, 1, 3, false)));
        count_list("parts(4,1,3)", &parts_family(&ebnf_bound(4, 1, 3, false)));
        return;
    }
    let l: usize = args.first().and_then(|s| s.parse().ok()).unwrap_or(4);
    let u: usize = args.get(1).and_then(|s| s.parse().ok()).unwrap_or(1);
    let r: usize = args.get(2).and_then(|s| s.parse().ok()).unwrap_or(3);
    let choice = args.get(3).is_some_and(|s| s == "choice");
    let b = ebnf_bound(l, u, r, choice);
    let t = std::time::Instant::now();
    let acc = par_ebnf(&b, &|g, acc| {
        acc.inc("grammars");
        if g.is_reduced() {
            acc.inc("reduced");
        }
        crate::front::with_front(&g.text(), |fr| {
            if !fr.has_error() {
                acc.inc("accepted");
                if g.fully_productive() {
                    acc.inc("accepted_productive");
                }
            }
        });
    });
    println!("{:?} in {:.1}s", acc.counters, t.elapsed().as_secs_f64());
}
