//! Properties decided by engine B.

use crate::bfam;
use crate::engine_b::{self, collect, flags, run_family};
use serde_json::json;
use vcommon::{Report, Violation};

pub fn run(prop: &'static str, replay: Option<String>) -> i32 {
    let mut rep = Report::new(prop);
    if let Some(path) = replay {
        return replay_one(prop, &path, rep);
    }
    let thorough = rep.is_thorough();
    let (mut grammars, family_names) = bfam::family(prop, thorough);
    if prop != "C03" && prop != "C11" {
        // grammars with hidden left recursion are accepted by lelwel but their parsers overflow the stack
        // (known finding of C03); running them elsewhere only re-discovers that crash
        grammars.retain(|g| !g.hidden_left_recursion());
    }
    if let Some(n) = std::env::var("VERIF_FAMILY_LIMIT").ok().and_then(|s| s.parse::<usize>().ok()) {
        grammars.truncate(n); // experiments only
    }
    let (len_full, len, len_trivia, dev) = if thorough { (5, 7, 5, 2) } else { (4, 5, 4, 1) };
    let args = flags(prop, len_full, len, len_trivia, dev);
    let out = run_family(&grammars, &args, true);
    let mut cov = collect(prop, &out, &mut rep);
    finish_common(prop, &out, &mut rep);
    let states = cov["outcomes"].as_u64().unwrap_or(0).max(1);
    let transitions = cov["executions"].as_u64().unwrap_or(0).max(1);
    cov["states"] = json!(states);
    cov["transitions"] = json!(transitions);
    cov["traces_validated_against_impl"] = cov["evaluations"].clone();
    cov["distinct_nontrivial"] = cov["nontrivial"].clone();
    cov["exhaustive"] = json!(true);
    cov["bounds"] = json!({"families": family_names,
        "len_full_alphabet": len_full, "len_tokens_only": len, "len_trivia_base": len_trivia, "script_deviations": dev});
    cov["rule"] = json!(rule_text(prop));
    cov["family_size_before_lelwel_verdict"] = json!(grammars.len());
    rep.finish(cov)
}

fn rule_text(prop: &str) -> String {
    format!("engine B: every fully productive grammar of the family that lelwel accepts is compiled (real RustOutput -> rustc) and its parser executed on every input up to the length bound (x entry points x answer scripts within the deviation bound); states = distinct observed (tree, diagnostic positions) outcomes summed over grammars, transitions = parser executions, evaluations = executions on which the {prop} oracle was evaluated; non-trivial as defined per property in DESIGN.md")
}

/// crashes -> C03, compile / generation failures -> C11 (each reported only under its own property)
pub fn finish_common(prop: &str, out: &engine_b::BOutcome, rep: &mut Report) {
    if prop == "C03" {
        for (i, d) in &out.crashes {
            let g = &out.gens[*i];
            rep.violation(Violation {
                key: format!("C03:crash:{}", engine_b::shape_class(&g.grammar)),
                summary: format!("C03: emitted parser for `{}` did not return: {d}", g.text.trim().replace('\n', " ")),
                replay: json!({"grammar": g.text, "sexp": vmodel::sexp::to_sexp(&g.grammar), "detail": d}),
            });
        }
    } else if !out.crashes.is_empty() {
        println!("# note: {} emitted parser(s) crashed or hung; that is C03's verdict, not {prop}'s", out.crashes.len());
    }
    if prop == "C11" {
        for (i, e) in &out.compile_failures {
            let g = &out.gens[*i];
            let first = e.lines().find(|l| l.starts_with("error")).unwrap_or("").to_string();
            rep.violation(Violation {
                key: format!("C11:does-not-compile:{}", engine_b::shape_class(&g.grammar)),
                summary: format!("C11: accepted grammar `{}` yields a parser that does not compile: {first}", g.text.trim().replace('\n', " ")),
                replay: json!({"grammar": g.text, "sexp": vmodel::sexp::to_sexp(&g.grammar), "rustc": e}),
            });
        }
        for (g, e) in &out.gen_failures {
            rep.violation(Violation {
                key: format!("C11:generator-failed:{}", engine_b::shape_class(g)),
                summary: format!("C11: code generation failed for accepted grammar `{}`: {e}", g.text().trim().replace('\n', " ")),
                replay: json!({"grammar": g.text(), "sexp": vmodel::sexp::to_sexp(g), "error": e}),
            });
        }
    } else if !out.compile_failures.is_empty() || !out.gen_failures.is_empty() {
        println!(
            "# note: {} emitted parser(s) did not compile / {} generator failure(s); that is C11's verdict, not {prop}'s",
            out.compile_failures.len(),
            out.gen_failures.len()
        );
    }
}

fn replay_one(prop: &'static str, path: &str, mut rep: Report) -> i32 {
    let v: serde_json::Value = serde_json::from_str(&std::fs::read_to_string(path).expect("read replay")).unwrap();
    let g = vmodel::sexp::from_sexp(v["replay"]["sexp"].as_str().expect("sexp in replay"));
    let thorough = rep.is_thorough();
    let (len_full, len, len_trivia, dev) = if thorough { (5, 7, 5, 2) } else { (4, 5, 4, 1) };
    let args = flags(prop, len_full, len, len_trivia, dev);
    let out = run_family(&[g], &args, true);
    let mut cov = collect(prop, &out, &mut rep);
    finish_common(prop, &out, &mut rep);
    cov["states"] = json!(1);
    cov["transitions"] = json!(cov["executions"].as_u64().unwrap_or(1).max(1));
    cov["traces_validated_against_impl"] = cov["evaluations"].clone();
    cov["mode"] = json!("replay");
    cov["samples"] = json!([path]);
    rep.finish(cov)
}
