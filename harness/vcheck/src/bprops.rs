//! Properties decided by engine B.

use crate::bfam;
use crate::engine_b::{self, collect, flags, run_family};
use serde_json::json;
use vcommon::{Report, Violation};

pub fn run(prop: &'static str, replay: Option<String>) -> i32 {
    let mut rep = Report::new(prop);
    if let Some(path) = replay {
        return replay_one(prop, &path, rep);
    }
    let thorough = rep.is_thorough();
    let (mut grammars, family_names) = bfam::family(prop, thorough);
    if prop != "C03" && prop != "C11" {
        // grammars with hidden left recursion are accepted by lelwel but their parsers overflow the stack
        // (known finding of C03); running them elsewhere only re-discovers that crash
        grammars.retain(|g| !g.hidden_left_recursion());
    }
    if let Some(n) = std::env::var("VERIF_FAMILY_LIMIT").ok().and_then(|s| s.parse::<usize>().ok()) {
        grammars.truncate(n); // experiments only
    }
    let (len_full, len, len_trivia, dev) = if thorough { (5, 6, 4, 2) } else { (4, 5, 4, 1) };
    let args = flags(prop, len_full, len, len_trivia, dev);
    let out = run_family(&grammars, &args, true);
    let mut cov = collect(prop, &out, &mut rep);
    finish_common(prop, &out, &mut rep);
    if prop == "C11" {
        let extra = c11_extra(&grammars, &out, &mut rep);
        cov["outcomes"] = json!(out.gens.len() as u64 + out.rejected as u64);
        cov["executions"] = json!(out.gens.len() as u64 + extra["compile_calls"].as_u64().unwrap_or(0) + extra["graph_outputs"].as_u64().unwrap_or(0));
        cov["evaluations"] = cov["executions"].clone();
        cov["nontrivial"] = json!(out.gens.len() as u64);
        cov["samples"] = json!(out.gens.iter().take(3).map(|g| json!({"accepted_grammar": g.text, "emitted_bytes": g.code.len()})).collect::<Vec<_>>());
        cov["c11"] = extra;
    }
    if prop == "C02" {
        // history clause: BFS over tree-builder operation histories on the real CstData
        let depth = if thorough { 11 } else { 9 };
        match out.first_bin.as_ref().map(|b| engine_b::run_history(b, depth)) {
            Some(Ok(h)) => {
                for v in h["violations"].as_array().cloned().unwrap_or_default() {
                    let text = v.as_str().unwrap_or("").to_string();
                    rep.violation(Violation {
                        key: format!("C02:history:{}", text.split(": ").nth(1).unwrap_or("").split(' ').take(4).collect::<Vec<_>>().join("-")),
                        summary: format!("C02 history: {}", text.chars().take(600).collect::<String>()),
                        replay: json!({"history_violation": text, "sexp": out.gens.first().map(|g| vmodel::sexp::to_sexp(&g.grammar))}),
                    });
                }
                cov["history_exploration"] = json!({"depth": depth, "states": h["states"], "transitions": h["transitions"], "finished_histories": h["finished"], "samples": h["samples"],
                    "rule": "BFS over well-nested histories of open / close / token+skipped run / mark / open_before(mark) / open_before(last closed node) / mark_truncation / truncate / close_root on the real CstData of one emitted parser (<= 4 tokens, <= 4 open frames, <= 2 live marks, one snapshot at a time); after every operation the node vector must equal the serialisation of a reference tree (trailing skipped tokens move to the parent on close), finished histories are checked through the public API with the C01/C02 oracles"});
                cov["outcomes"] = json!(cov["outcomes"].as_u64().unwrap_or(0) + h["states"].as_u64().unwrap_or(0));
            }
            Some(Err(e)) => vcommon::machinery_failure(&format!("history exploration: {e}")),
            None => {}
        }
    }
    let states = cov["outcomes"].as_u64().unwrap_or(0).max(1);
    let transitions = cov["executions"].as_u64().unwrap_or(0).max(1);
    cov["states"] = json!(states);
    cov["transitions"] = json!(transitions);
    cov["traces_validated_against_impl"] = cov["evaluations"].clone();
    cov["distinct_nontrivial"] = cov["nontrivial"].clone();
    cov["exhaustive"] = json!(true);
    cov["bounds"] = json!({"families": family_names,
        "len_full_alphabet": len_full, "len_tokens_only": len, "len_trivia_base": len_trivia, "script_deviations": dev});
    cov["rule"] = json!(rule_text(prop));
    cov["family_size_before_lelwel_verdict"] = json!(grammars.len());
    rep.finish(cov)
}

fn rule_text(prop: &str) -> String {
    format!("engine B: every fully productive grammar of the family that lelwel accepts is compiled (real RustOutput -> rustc) and its parser executed on every input up to the length bound (x entry points x answer scripts within the deviation bound); states = distinct observed (tree, diagnostic positions) outcomes summed over grammars, transitions = parser executions, evaluations = executions on which the {prop} oracle was evaluated; non-trivial as defined per property in DESIGN.md")
}

/// crashes -> C03, compile / generation failures -> C11 (each reported only under its own property)
pub fn finish_common(prop: &str, out: &engine_b::BOutcome, rep: &mut Report) {
    if prop == "C03" {
        for (i, d) in &out.crashes {
            let g = &out.gens[*i];
            rep.violation(Violation {
                key: format!("C03:crash:{}", engine_b::shape_class(&g.grammar)),
                summary: format!("C03: emitted parser for `{}` did not return: {d}", g.text.trim().replace('\n', " ")),
                replay: json!({"grammar": g.text, "sexp": vmodel::sexp::to_sexp(&g.grammar), "detail": d}),
            });
        }
    } else if !out.crashes.is_empty() {
        println!("# note: {} emitted parser(s) crashed or hung; that is C03's verdict, not {prop}'s", out.crashes.len());
    }
    if prop == "C11" {
        for (i, e) in &out.compile_failures {
            let g = &out.gens[*i];
            let first = e
                .lines()
                .find(|l| l.trim_start_matches("error").len() < l.len() && l.contains(": "))
                .unwrap_or("")
                .trim_start_matches("error")
                .trim_start_matches(|c: char| c == '[' || c == ']' || c.is_ascii_alphanumeric())
                .trim_start_matches(": ")
                .to_string();
            let first: String = first.chars().take(90).collect();
            rep.violation(Violation {
                key: format!("C11:does-not-compile:{first}"),
                summary: format!("C11: accepted grammar `{}` yields a parser that does not compile: {first}", g.text.trim().replace('\n', " ")),
                replay: json!({"grammar": g.text, "sexp": vmodel::sexp::to_sexp(&g.grammar), "rustc": e}),
            });
        }
        for (g, e) in &out.gen_failures {
            rep.violation(Violation {
                key: format!("C11:generator-failed:{}", engine_b::shape_class(g)),
                summary: format!("C11: code generation failed for accepted grammar `{}`: {e}", g.text().trim().replace('\n', " ")),
                replay: json!({"grammar": g.text(), "sexp": vmodel::sexp::to_sexp(g), "error": e}),
            });
        }
    } else if !out.compile_failures.is_empty() || !out.gen_failures.is_empty() {
        println!(
            "# note: {} emitted parser(s) did not compile / {} generator failure(s); that is C11's verdict, not {prop}'s",
            out.compile_failures.len(),
            out.gen_failures.len()
        );
    }
}

fn replay_one(prop: &'static str, path: &str, mut rep: Report) -> i32 {
    let v: serde_json::Value = serde_json::from_str(&std::fs::read_to_string(path).expect("read replay")).unwrap();
    let g = vmodel::sexp::from_sexp(v["replay"]["sexp"].as_str().expect("sexp in replay"));
    let thorough = rep.is_thorough();
    let (len_full, len, len_trivia, dev) = if thorough { (5, 6, 4, 2) } else { (4, 5, 4, 1) };
    let args = flags(prop, len_full, len, len_trivia, dev);
    let out = run_family(&[g], &args, true);
    let mut cov = collect(prop, &out, &mut rep);
    finish_common(prop, &out, &mut rep);
    cov["states"] = json!(1);
    cov["transitions"] = json!(cov["executions"].as_u64().unwrap_or(1).max(1));
    cov["traces_validated_against_impl"] = cov["evaluations"].clone();
    cov["mode"] = json!("replay");
    cov["samples"] = json!([path]);
    rep.finish(cov)
}

/// C11 beyond "accepted => compiles": graph output for every accepted grammar, and the gate of
/// `lelwel::compile` (rejected => Ok(false) and no file; accepted => Ok(true) and generated.rs).
fn c11_extra(grammars: &[vmodel::Grammar], out: &engine_b::BOutcome, rep: &mut Report) -> serde_json::Value {
    use crate::front::try_front;
    let scratch = vcommon::scratch_dir(&format!("c11-{}", std::process::id()));
    let old_cwd = std::env::current_dir().ok();
    let _ = std::env::set_current_dir(&scratch);
    // 1. graph output (writes parser.gv into the current directory): sequential
    let mut graphs = 0u64;
    for g in &out.gens {
        let text = &g.text;
        let _ = std::fs::remove_file(scratch.join("parser.gv"));
        let r = try_front(text, |fr| lelwel::backend::graphviz::GraphvizOutput::run(fr.cst, fr.sema).map_err(|e| e.to_string()));
        graphs += 1;
        let problem = match r {
            Err(p) => Some(format!("panicked: {p}")),
            Ok(Err(e)) => Some(format!("returned error: {e}")),
            Ok(Ok(())) => match std::fs::read_to_string(scratch.join("parser.gv")) {
                Ok(t) if t.starts_with("digraph {") && t.trim_end().ends_with('}') => None,
                Ok(t) => Some(format!("malformed graph file ({} bytes)", t.len())),
                Err(e) => Some(format!("no parser.gv: {e}")),
            },
        };
        if let Some(p) = problem {
            rep.violation(Violation {
                key: format!("C11:graph-output:{}", engine_b::shape_class(&g.grammar)),
                summary: format!("C11: graph output for accepted grammar `{}` {p}", text.trim().replace('\n', " ")),
                replay: json!({"grammar": text, "sexp": vmodel::sexp::to_sexp(&g.grammar), "problem": p}),
            });
        }
    }
    // 2. the gate in lelwel::compile: repository fixtures + a prefix of the family (accepted and rejected)
    let mut texts: Vec<(String, String)> = vec![];
    if let Ok(rd) = std::fs::read_dir("/repo/tests/frontend") {
        let mut files: Vec<_> = rd.flatten().map(|e| e.path()).filter(|p| p.extension().is_some_and(|x| x == "llw")).collect();
        files.sort();
        for f in files {
            if let Ok(t) = std::fs::read_to_string(&f) {
                texts.push((f.display().to_string(), t));
            }
        }
    }
    let mut rejected_seen = 0;
    for g in grammars {
        let t = g.text();
        let rejected = try_front(&t, |fr| fr.has_error()).unwrap_or(true);
        if rejected && rejected_seen < 400 {
            rejected_seen += 1;
            texts.push((format!("family member #{rejected_seen}"), t));
        }
    }
    for g in out.gens.iter().take(100) {
        texts.push(("accepted family member".to_string(), g.text.clone()));
    }
    // silence the diagnostics compile() prints to stderr
    let devnull = std::fs::OpenOptions::new().write(true).open("/dev/null").ok();
    let saved = unsafe { libc::dup(2) };
    if let Some(d) = &devnull {
        use std::os::fd::AsRawFd;
        unsafe { libc::dup2(d.as_raw_fd(), 2) };
    }
    let mut calls = 0u64;
    let mut rejected_calls = 0u64;
    let mut viols = vec![];
    for (i, (name, text)) in texts.iter().enumerate() {
        let dir = scratch.join(format!("c{i}"));
        let outdir = dir.join("out");
        let _ = std::fs::create_dir_all(&outdir);
        let path = dir.join("g.llw");
        let _ = std::fs::write(&path, text);
        let has_error = match try_front(text, |fr| fr.has_error()) {
            Ok(b) => b,
            Err(_) => continue, // front-end panic: C12
        };
        let res = std::panic::catch_unwind(|| {
            lelwel::compile(path.to_str().unwrap(), outdir.to_str().unwrap(), false, false, 0, false, true)
        });
        calls += 1;
        let gen = outdir.join("generated.rs").exists();
        let skel = dir.join("lexer.rs").exists() || dir.join("parser.rs").exists();
        let problem = match (&res, has_error) {
            (Err(_), _) => Some("lelwel::compile panicked".to_string()),
            (Ok(Err(e)), _) => Some(format!("lelwel::compile returned an I/O error: {e}")),
            (Ok(Ok(ok)), true) => {
                rejected_calls += 1;
                if *ok || gen || skel {
                    Some(format!("grammar has an error diagnostic but compile returned {ok}, generated.rs written: {gen}, skeletons written: {skel}"))
                } else {
                    None
                }
            }
            (Ok(Ok(ok)), false) => {
                if !*ok || !gen {
                    Some(format!("grammar has no error diagnostic but compile returned {ok}, generated.rs written: {gen}"))
                } else {
                    None
                }
            }
        };
        if let Some(p) = problem {
            viols.push(Violation {
                key: format!("C11:compile-gate:{}", if has_error { "rejected" } else { "accepted" }),
                summary: format!("C11: {name}: {p}"),
                replay: json!({"text": text, "problem": p}),
            });
        }
        let _ = std::fs::remove_dir_all(&dir);
    }
    if saved >= 0 {
        unsafe {
            libc::dup2(saved, 2);
            libc::close(saved);
        }
    }
    for v in viols {
        rep.violation(v);
    }
    if let Some(c) = old_cwd {
        let _ = std::env::set_current_dir(c);
    }
    vcommon::remove_dir(&scratch);
    json!({"graph_outputs": graphs, "compile_calls": calls, "compile_calls_on_rejected_grammars": rejected_calls})
}
