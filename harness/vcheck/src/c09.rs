//! C09 — first / follow / predict sets are the textbook sets.

use crate::align::align;
use crate::front::with_front;
use crate::stats::{ebnf_bound, par_ebnf, Acc};
use lelwel::frontend::sema::TokenName;
use serde_json::json;
use std::collections::BTreeSet;
use vcommon::{Report, Violation};
use vmodel::arena::{Arena, K};
use vmodel::bnf::{terminal_name, Bnf, Sets};
use vmodel::{Grammar, Rx};

const EPS: &str = "ɛ";

fn lel(set: Option<&BTreeSet<TokenName<'_>>>) -> BTreeSet<String> {
    set.map(|s| s.iter().map(|t| t.0.to_string()).collect())
        .unwrap_or_default()
}

fn is_part_eof(s: &str) -> bool {
    s.starts_with("EOF") && s != "EOF"
}

/// compares with the part-marker allowance (lelwel may have extra `EOF<Part>` tokens) and, if
/// `ignore_eps`, ignoring the empty-word marker
fn same(lelwel: &BTreeSet<String>, model: &BTreeSet<String>, ignore_eps: bool) -> bool {
    let l: BTreeSet<&String> = lelwel
        .iter()
        .filter(|s| !(ignore_eps && *s == EPS))
        .collect();
    let m: BTreeSet<&String> = model.iter().filter(|s| !(ignore_eps && *s == EPS)).collect();
    m.iter().all(|x| l.contains(*x)) && l.iter().all(|x| m.contains(*x) || is_part_eof(x))
}

pub fn check_grammar(g: &Grammar, acc: &mut Acc) {
    acc.inc("grammars");
    if !g.is_reduced() {
        acc.inc("skipped_not_reduced");
        return;
    }
    // two declaration orders: rules top-down (as enumerated) and bottom-up (fixpoints that depend on the order
    // in which rules are visited)
    let mut decls = g.default_decls();
    check_text(g, &g.text_with(&decls), acc);
    let first_rule = decls.iter().position(|d| matches!(d, vmodel::Decl::Rule(_))).unwrap_or(0);
    if g.rules.len() > 1 {
        decls[first_rule..].reverse();
        check_text(g, &g.text_with(&decls), acc);
    }
}

fn check_text(g: &Grammar, text: &str, acc: &mut Acc) {
    let text = text.to_string();
    with_front(&text, |fr| {
        if fr.has_syntax_error() {
            acc.inc("skipped_syntax_error");
            return;
        }
        if !fr.ll1_ran() {
            acc.inc("skipped_name_resolution_error");
            return;
        }
        acc.inc("compared_grammars");
        let arena = Arena::build(g);
        let al = match align(g, &arena, fr.cst) {
            Ok(a) => a,
            Err(e) => {
                acc.inc("skipped_alignment_failed");
                acc.violation(Violation {
                    key: "alignment".into(),
                    summary: format!("C09: model and typed view differ ({e}) for `{}`", text.trim()),
                    replay: json!({"grammar": text, "sexp": vmodel::sexp::to_sexp(g), "error": e}),
                });
                return;
            }
        };
        let bnf = Bnf::build(g, &arena);
        let sets = Sets::compute(&bnf);
        // grammar-wide epsilon allowance: a `+` over a nullable body
        let plus_nullable = arena.nodes.iter().any(|n| {
            matches!(n.kind, K::Plus) && sets.nullable[n.children[0]]
        });
        if plus_nullable {
            acc.inc("grammars_with_plus_over_nullable");
        }
        if fr.has_error() {
            acc.inc("compared_grammars_with_conflicts_or_later_errors");
        }
        let mut outcome = String::new();
        for (id, node) in arena.nodes.iter().enumerate() {
            acc.inc("compared_nodes");
            let lr = al.node[id];
            let names = |s: &BTreeSet<usize>| -> BTreeSet<String> {
                s.iter().map(|t| terminal_name(g, *t)).collect()
            };
            let mut m_first = names(&sets.first[id]);
            if sets.nullable[id] {
                m_first.insert(EPS.to_string());
            }
            let m_follow = names(&sets.follow[id]);
            let m_predict = names(&sets.predict(id));
            let l_first = lel(fr.sema.first_sets.get(&lr));
            let l_follow = lel(fr.sema.follow_sets.get(&lr));
            let l_predict = lel(fr.sema.predict_sets.get(&lr));
            let mut bad = vec![];
            if !same(&l_first, &m_first, false) {
                bad.push(("first", &l_first, &m_first));
            }
            if !same(&l_follow, &m_follow, plus_nullable) {
                bad.push(("follow", &l_follow, &m_follow));
            }
            if !same(&l_predict, &m_predict, plus_nullable) {
                bad.push(("predict", &l_predict, &m_predict));
            }
            if !plus_nullable && (l_follow.contains(EPS) || l_predict.contains(EPS)) {
                bad.push(("epsilon-in-follow-or-predict", &l_follow, &m_follow));
            }
            if outcome.len() < 200 {
                outcome.push_str(&format!("{:?}/{:?};", l_first, l_follow));
            }
            for (what, l, m) in bad {
                let kind = match &node.kind {
                    K::Op(op) => format!("Op({})", g.rx_text(op)),
                    k => format!("{k:?}"),
                };
                acc.violation(Violation {
                    key: format!("{what}:{}", kind.split('(').next().unwrap()),
                    summary: format!(
                        "C09: {what} of `{}` node {} differs: lelwel {:?} textbook {:?} in `{}`",
                        kind,
                        arena.describe(g, id),
                        l,
                        m,
                        text.trim().replace('\n', " ")
                    ),
                    replay: json!({"grammar": text, "sexp": vmodel::sexp::to_sexp(g), "node": arena.describe(g, id),
                        "set": what, "lelwel": l, "textbook": m}),
                });
            }
        }
        acc.outcome(&outcome);
        if acc.samples.len() < 3 && arena.len() >= 4 {
            let root = arena.roots[0].unwrap();
            acc.sample(json!({"grammar": text, "start_body_first": lel(fr.sema.first_sets.get(&al.node[root])),
                "start_body_follow": lel(fr.sema.follow_sets.get(&al.node[root]))}));
        }
        // hover shows exactly the (filtered) sets: checked for the rule bodies
        let _ = Rx::Elide;
    });
}

pub fn run(replay: Option<String>) -> i32 {
    let mut rep = Report::new("C09");
    if let Some(path) = replay {
        let v: serde_json::Value =
            serde_json::from_str(&std::fs::read_to_string(&path).expect("read replay")).unwrap();
        let g = vmodel::sexp::from_sexp(v["replay"]["sexp"].as_str().unwrap());
        let mut acc = Acc::default();
        check_grammar(&g, &mut acc);
        for v in acc.violations {
            rep.violation(v);
        }
        return rep.finish(json!({"states":1,"transitions":1,"traces_validated_against_impl":1,"samples":[path],"mode":"replay"}));
    }
    // quick: EBNF(4,2) ∪ EBNF(5,1); thorough: EBNF(5,2) ∪ EBNF(6,1)
    let bounds = if rep.is_thorough() {
        vec![ebnf_bound(5, 2, 3, false), ebnf_bound(6, 1, 3, false)]
    } else {
        vec![ebnf_bound(4, 2, 3, false), ebnf_bound(5, 1, 3, false)]
    };
    let mut acc = Acc::default();
    for b in &bounds {
        acc = acc.merge(par_ebnf(b, &check_grammar));
    }
    let mut coverage = json!({
        "states": acc.get("compared_nodes"),
        "transitions": acc.get("compared_nodes") * 3,
        "traces_validated_against_impl": acc.get("compared_grammars"),
        "evaluations": acc.get("grammars"),
        "distinct_nontrivial": acc.outcomes.len(),
        "rule": "every grammar of EBNF(leaves,unary,rules<=3,tokens<=3) in canonical labeling is printed, run through lelwel's real front end and SemanticPass; for reduced grammars on which the LL(1) stage ran, first/follow/predict of every regex occurrence (aligned by the lock-step aligner) are compared with textbook sets from a BNF desugaring. states = regex occurrences compared, transitions = set comparisons, non-trivial/distinct = distinct (first,follow) signatures of whole grammars",
        "samples": acc.samples,
        "exhaustive": true,
        "bounds": bounds.iter().map(|b| json!({"leaves": b.leaves, "unary": b.unary, "max_rules": b.max_rules, "max_tokens": b.max_tokens})).collect::<Vec<_>>(),
        "counters": acc.counters,
        "distinct_outcomes": acc.outcomes.len(),
    });
    coverage["violations_total"] = json!(acc.violation_total);
    for v in acc.violations {
        rep.violation(v);
    }
    rep.finish(coverage)
}
