//! C13 — reading a grammar file recovers exactly the grammar that was written (every layout).
//! C15 — output is reproducible and independent of declaration order.

use crate::align::{align, align_file};
use crate::front::try_front;
use crate::stats::{ebnf_bound, par_list, Acc};
use lelwel::frontend::sema::TokenName;
use serde_json::json;
use std::collections::{BTreeMap, BTreeSet};
use vcommon::{Report, Violation};
use vmodel::arena::Arena;
use vmodel::families::*;
use vmodel::{Decl, Grammar, Rx, TokenDef};

pub const FILLERS: [&str; 10] = [
    "", "  ", "\n", "\n\n", "\n   ", "\t", " // c\n", " /// c\n", " /* c */ ", "/* c */",
];

fn is_punct(s: &str) -> bool {
    matches!(s, ":" | ";" | "=" | "(" | ")" | "[" | "]" | "|" | "*" | "+" | "^" | "~" | "&")
}

/// may the empty filler stand between these two lexemes without changing the token sequence?
fn may_touch(a: &str, b: &str) -> bool {
    (is_punct(a) || is_punct(b)) && a != "/" && b != "/"
}

/// text for lexemes with `dev` = (gap index, filler index) deviations from the single-space default; gap i
/// is the one before lexeme i, gap n the one after the last lexeme
fn layout(lex: &[String], dev: &[(usize, usize)]) -> Option<String> {
    let mut s = String::new();
    for i in 0..=lex.len() {
        let filler = dev.iter().find(|d| d.0 == i).map(|d| FILLERS[d.1]);
        match filler {
            Some("") => {
                if i > 0 && i < lex.len() && !may_touch(&lex[i - 1], &lex[i]) {
                    return None;
                }
            }
            Some(f) => {
                // `/` directly followed by a comment opener would itself become a comment opener
                if f.starts_with('/') && i > 0 && lex[i - 1] == "/" {
                    return None;
                }
                s.push_str(f)
            }
            None => {
                if i > 0 && i < lex.len() {
                    s.push(' ')
                }
            }
        }
        if i < lex.len() {
            s.push_str(&lex[i]);
        }
    }
    Some(s)
}

fn decl_kind_family() -> Vec<(Grammar, Vec<Decl>)> {
    // every declaration kind, symbols with escaped quotes / backslashes, references by symbol
    let mut g = grammar(
        0,
        vec![
            ("s", false, Some(cat(vec![Rx::Sym(0), Rx::Ref(1), Rx::Sym(1), opt(Rx::Sym(2)), star(Rx::Tok(3))]))),
            ("x", true, Some(alt(vec![Rx::Tok(4), cat(vec![Rx::Sym(5), Rx::Elide])]))),
            ("p", false, Some(cat(vec![Rx::Tok(4), Rx::Ref(1)]))),
        ],
    );
    g.tokens = vec![
        TokenDef { name: "Quote".into(), symbol: Some("\\'".into()) },
        TokenDef { name: "Back".into(), symbol: Some("\\\\".into()) },
        TokenDef { name: "Semi".into(), symbol: Some(";".into()) },
        TokenDef { name: "Num".into(), symbol: Some("<number>".into()) },
        TokenDef { name: "Plain".into(), symbol: None },
        TokenDef { name: "Slash2".into(), symbol: Some("//".into()) },
        TokenDef { name: "Ws".into(), symbol: None },
        TokenDef { name: "Op".into(), symbol: Some("/*".into()) },
    ];
    g.skip = vec![6];
    g.right = vec![7, 0];
    g.parts = vec![2];
    let d1 = g.default_decls();
    let d2 = vec![
        Decl::Rule(2),
        Decl::Tokens(vec![0, 1]),
        Decl::Start,
        Decl::Tokens(vec![2, 3, 4]),
        Decl::Rule(0),
        Decl::Part(vec![2]),
        Decl::Skip(vec![6]),
        Decl::Tokens(vec![5, 6, 7]),
        Decl::Right(vec![7]),
        Decl::Rule(1),
        Decl::Right(vec![0]),
    ];
    vec![(g.clone(), d1), (g, d2)]
}

/// models for C13: a broad but small-bodied collection (every operator kind, nesting, precedence levels)
fn c13_models(thorough: bool) -> Vec<(Grammar, Vec<Decl>)> {
    let mut gs: Vec<Grammar> = vec![];
    let mut b = ebnf_bound(if thorough { 4 } else { 3 }, if thorough { 1 } else { 2 }, 2, false);
    b.cfg.choice = true;
    b.cfg.paren_concat = true;
    ebnf_all(&b, &mut |g| gs.push(g.clone()));
    pratt_family(if thorough { 2 } else { 1 }, 2, &mut |g| gs.push(g.clone()));
    gs.extend(node_family(1, &node_bases()));
    let small = ebnf_bound(2, 1, 2, false);
    gs.extend(pred_family(&small, 1));
    gs.extend(choice_family(&small, 1));
    gs.extend(parts_family(&ebnf_bound(3, 1, 2, false)));
    // empty parentheses and empty rule bodies
    gs.push(grammar(2, vec![("s", false, Some(cat(vec![tok(0), Rx::Paren(None), tok(1)]))), ("x", false, None)]));
    let mut out: Vec<(Grammar, Vec<Decl>)> = gs
        .into_iter()
        .map(|g| {
            let d = g.default_decls();
            (g, d)
        })
        .collect();
    out.extend(decl_kind_family());
    out
}

fn check_layout(g: &Grammar, decls: &[Decl], text: &str, dev: &[(usize, usize)], acc: &mut Acc) {
    acc.inc("texts");
    let r = try_front(text, |fr| {
        if fr.has_syntax_error() {
            let d = &fr.diags[0];
            acc.violation(Violation {
                key: format!("syntax-diagnostic:{}", dev.iter().map(|d| format!("{:?}", FILLERS[d.1])).collect::<Vec<_>>().join("+")),
                summary: format!("C13: legal layout draws a syntax diagnostic `{}` for {:?}", d.message, text),
                replay: json!({"text": text, "sexp": vmodel::sexp::to_sexp(g), "message": d.message}),
            });
            return;
        }
        if let Err(e) = align_file(g, decls, fr.cst) {
            acc.violation(Violation {
                key: format!("typed-view-differs:{}", e.split(':').next().unwrap_or("").split(' ').take(3).collect::<Vec<_>>().join("-")),
                summary: format!("C13: typed view differs from what was written: {e} for {:?}", text),
                replay: json!({"text": text, "sexp": vmodel::sexp::to_sexp(g), "error": e}),
            });
        }
    });
    if r.is_err() {
        acc.inc("front_end_panics_(C12)");
    }
}

pub fn run_c13(replay: Option<String>) -> i32 {
    let mut rep = Report::new("C13");
    if let Some(path) = replay {
        let v: serde_json::Value = serde_json::from_str(&std::fs::read_to_string(&path).expect("read replay")).unwrap();
        let g = vmodel::sexp::from_sexp(v["replay"]["sexp"].as_str().unwrap());
        let text = v["replay"]["text"].as_str().unwrap().to_string();
        let mut acc = Acc::default();
        // declaration order is not stored for the hand-built family: default order only
        check_layout(&g, &g.default_decls(), &text, &[], &mut acc);
        for v in acc.violations {
            rep.violation(v);
        }
        return rep.finish(json!({"states":1,"transitions":1,"traces_validated_against_impl":1,"samples":[path],"mode":"replay"}));
    }
    let thorough = rep.is_thorough();
    let models = c13_models(thorough);
    let gmax = if thorough { 2 } else { 1 };
    use rayon::prelude::*;
    let acc = models
        .par_chunks(16)
        .map(|chunk| {
            let mut acc = Acc::default();
            for (g, decls) in chunk {
                acc.inc("models");
                let lex = g.lexemes(decls);
                let n = lex.len();
                // default layout
                let base = layout(&lex, &[]).unwrap();
                check_layout(g, decls, &base, &[], &mut acc);
                // all single deviations
                for gap in 0..=n {
                    for f in 0..FILLERS.len() {
                        if let Some(t) = layout(&lex, &[(gap, f)]) {
                            check_layout(g, decls, &t, &[(gap, f)], &mut acc);
                            acc.inc("layouts_with_deviation");
                        }
                    }
                }
                // all pairs (thorough, or small texts)
                if n <= if gmax >= 2 { 18 } else { 14 } {
                    for g1 in 0..=n {
                        for g2 in g1 + 1..=n {
                            for f1 in 0..FILLERS.len() {
                                for f2 in 0..FILLERS.len() {
                                    if let Some(t) = layout(&lex, &[(g1, f1), (g2, f2)]) {
                                        check_layout(g, decls, &t, &[(g1, f1), (g2, f2)], &mut acc);
                                        acc.inc("layouts_with_deviation");
                                    }
                                }
                            }
                        }
                    }
                }
                acc.outcome(&lex.join(" "));
                if acc.samples.len() < 3 && n > 12 {
                    acc.sample(json!({"written": base, "one_layout": layout(&lex, &[(3, 6), (n - 1, 2)])}));
                }
            }
            acc
        })
        .reduce(Acc::default, Acc::merge);
    let coverage = json!({
        "states": acc.get("models").max(1),
        "transitions": acc.get("texts").max(1),
        "traces_validated_against_impl": acc.get("texts"),
        "evaluations": acc.get("texts"),
        "distinct_nontrivial": acc.get("layouts_with_deviation"),
        "rule": "every model (EBNF with ordered choice and redundant parentheses, PRATT, NODE, PRED, CHOICE, PARTS, a declaration-kind family with escaped symbols) is printed as lexemes and laid out with every assignment of gap fillers with <= g gaps deviating from the single-space default (g=1, and g=2 for short texts / thorough); each text goes through lelwel's real front end, must draw no syntax diagnostic, and the lock-step aligner must find the typed view (declaration kinds and order, names, symbols, numbers, operator nesting) identical to the model. states = models, transitions = texts; non-trivial = texts with at least one deviating gap",
        "samples": acc.samples,
        "exhaustive": true,
        "bounds": {"fillers": FILLERS, "deviating_gaps": 1, "pairs_for_texts_up_to_lexemes": if gmax >= 2 { 18 } else { 14 }, "models": if thorough { "EBNF(4,1,2)+choice+redundant parentheses, PRATT(2,2), NODE(1), PRED, CHOICE, PARTS, declaration kinds" } else { "EBNF(3,2,2)+choice+redundant parentheses, PRATT(1,2), NODE(1), PRED, CHOICE, PARTS, declaration kinds" }},
        "counters": acc.counters,
        "distinct_outcomes": acc.outcomes.len(),
        "violations_total": acc.violation_total,
    });
    for v in acc.violations {
        rep.violation(v);
    }
    rep.finish(coverage)
}

// ------------------------------------------------------------------------------------------------
// C15

fn permutations(n: usize) -> Vec<Vec<usize>> {
    fn rec(cur: &mut Vec<usize>, used: &mut Vec<bool>, out: &mut Vec<Vec<usize>>) {
        if cur.len() == used.len() {
            out.push(cur.clone());
            return;
        }
        for i in 0..used.len() {
            if !used[i] {
                used[i] = true;
                cur.push(i);
                rec(cur, used, out);
                cur.pop();
                used[i] = false;
            }
        }
    }
    let mut out = vec![];
    rec(&mut vec![], &mut vec![false; n], &mut out);
    out
}

#[derive(PartialEq, Eq, Debug, Clone)]
struct Analysis {
    accepted: bool,
    /// (code, message, texts under the labels) sorted
    diags: Vec<(String, String, Vec<String>)>,
    /// per arena node: first, follow, predict, recovery
    sets: Vec<[BTreeSet<String>; 4]>,
    /// normalised emitted code: (sorted rule functions, sorted part entry functions, remainder)
    code: Option<(Vec<String>, Vec<String>, String)>,
}

fn names(s: Option<&BTreeSet<TokenName<'_>>>) -> BTreeSet<String> {
    s.map(|s| s.iter().map(|t| t.0.to_string()).collect())
        .unwrap_or_default()
}

/// splits emitted code into rule functions, part entry functions and the remainder; the skip-token patterns
/// of the remainder are sorted (their order follows declaration positions and has no behavioural meaning)
fn normalise_code(code: &str) -> (Vec<String>, Vec<String>, String) {
    let mut rules = vec![];
    let mut parts = vec![];
    let mut rest = String::new();
    let mut cur: Option<(bool, String)> = None;
    for line in code.lines() {
        let starts_rule = line.starts_with("    fn rule_") || line.starts_with("    #[allow(unused_assignments)]");
        let starts_part = line.starts_with("    /// Returns the CST for a parse of the ") && !line.contains("start rule");
        if starts_rule || starts_part {
            if let Some((is_part, body)) = cur.take() {
                if is_part { parts.push(body) } else { rules.push(body) }
            }
            cur = Some((starts_part, String::new()));
        }
        if line == "}" {
            if let Some((is_part, body)) = cur.take() {
                if is_part { parts.push(body) } else { rules.push(body) }
            }
        }
        match &mut cur {
            Some((_, body)) => {
                body.push_str(line);
                body.push('\n');
            }
            None => {
                let mut l = line.to_string();
                if let Some(pos) = l.find("Token::Error | ") {
                    // `Token::Error | Token::W | Token::V` -> sorted alternatives
                    let end = l[pos..].find(')').map(|e| pos + e).unwrap_or(l.len());
                    let mut alts: Vec<&str> = l[pos..end].split(" | ").collect();
                    alts.sort();
                    let joined = alts.join(" | ");
                    l.replace_range(pos..end, &joined);
                }
                rest.push_str(&l);
                rest.push('\n');
            }
        }
    }
    rules.sort();
    parts.sort();
    (rules, parts, rest)
}

fn analyse(g: &Grammar, decls: &[Decl], scratch: &std::path::Path, id: usize) -> Result<Analysis, String> {
    let text = g.text_with(decls);
    let arena = Arena::build(g);
    try_front(&text, |fr| -> Result<Analysis, String> {
        let al = align(g, &arena, fr.cst)?;
        let mut diags: Vec<(String, String, Vec<String>)> = fr
            .diags
            .iter()
            .map(|d| {
                let mut labels: Vec<String> = d
                    .labels
                    .iter()
                    .map(|l| format!("{}:{}", text.get(l.range.clone()).unwrap_or("?"), l.message))
                    .collect();
                labels.sort();
                (d.code.clone().unwrap_or_default(), d.message.clone(), labels)
            })
            .collect();
        diags.sort();
        let sets = (0..arena.len())
            .map(|i| {
                let n = al.node[i];
                [
                    names(fr.sema.first_sets.get(&n)),
                    names(fr.sema.follow_sets.get(&n)),
                    names(fr.sema.predict_sets.get(&n)),
                    names(fr.sema.recovery_sets.get(&n)),
                ]
            })
            .collect();
        let accepted = !fr.has_error();
        let mut code = None;
        if accepted {
            // one directory per grammar, reused by all its permutations (generated.rs is overwritten)
            let dir = scratch.join(format!("p{id}"));
            if !dir.exists() {
                let _ = std::fs::create_dir_all(&dir);
            }
            let res = std::panic::catch_unwind(std::panic::AssertUnwindSafe(|| {
                lelwel::backend::rust::RustOutput::run(fr.cst, fr.sema, &dir.join("g.llw"), &dir)
            }));
            if let Ok(Ok(())) = res {
                code = std::fs::read_to_string(dir.join("generated.rs")).ok().map(|c| normalise_code(&c));
            }
        }
        Ok(Analysis {
            accepted,
            diags,
            sets,
            code,
        })
    })
    .map_err(|p| format!("front-end panic: {p}"))?
}

pub fn run_c15(replay: Option<String>) -> i32 {
    let mut rep = Report::new("C15");
    let thorough = rep.is_thorough();
    // generated files are written and read back hundreds of thousands of times: use a memory file system
    // for the scratch directory when there is one
    let shm = std::path::PathBuf::from(format!("/dev/shm/verif-c15-{}", std::process::id()));
    let scratch = if std::fs::create_dir_all(&shm).is_ok() {
        shm
    } else {
        vcommon::scratch_dir(&format!("c15-{}", std::process::id()))
    };
    let mut models: Vec<Grammar> = vec![];
    if let Some(path) = &replay {
        let v: serde_json::Value = serde_json::from_str(&std::fs::read_to_string(path).expect("read replay")).unwrap();
        models.push(vmodel::sexp::from_sexp(v["replay"]["sexp"].as_str().unwrap()));
    } else {
        // accepted grammars with few declarations: two skipped tokens, a right token, parts
        let mut base: Vec<Grammar> = vec![];
        ebnf_all(&ebnf_bound(if thorough { 4 } else { 3 }, 1, 2, false), &mut |g| {
            if g.fully_productive() {
                base.push(g.clone())
            }
        });
        pratt_family_atoms(if thorough { 2 } else { 1 }, 2, &[0], &mut |g| base.push(g.clone()));
        base.extend(parts_family(&ebnf_bound(3, 0, 2, false)));
        base.extend(choice_family_ops(&ebnf_bound(3, 0, 2, false), 0, &[]));
        // SHARED-NAMES: one node name used at two sites (renames / creations) of two-rule grammars with an ordered
        // choice: what is emitted for the name (e.g. its delete callback) must not depend on which site comes first
        base.extend(
            choice_family_ops(
                &ebnf_bound(3, 0, 2, false),
                2,
                &[Rx::Rename("n".into()), Rx::Create(None, Some("n".into()))],
            )
            .into_iter()
            .filter(|g| {
                let mut n = 0;
                g.walk_all(&mut |_, r| {
                    if matches!(r, Rx::Rename(_) | Rx::Create(..)) {
                        n += 1
                    }
                });
                g.rules.len() == 2 && n == 2
            }),
        );
        eprintln!("# C15 base models: {}", base.len());
        for mut g in base {
            g.tokens.truncate(
                1 + g
                    .rules
                    .iter()
                    .flat_map(|r| r.body.iter())
                    .map(|b| {
                        let mut m = 0;
                        b.walk(&mut |x| {
                            if let Rx::Tok(t) = x {
                                m = m.max(*t)
                            }
                        });
                        m
                    })
                    .max()
                    .unwrap_or(0),
            );
            g.right.retain(|t| *t < g.tokens.len());
            let w = g.add_token("W", None);
            g.skip = vec![w];
            models.push(g);
        }
    }
    use rayon::prelude::*;
    let max_decls = if thorough { 8 } else { 7 };
    let counter = std::sync::atomic::AtomicUsize::new(0);
    let acc = models
        .par_iter()
        .map(|g| {
            let mut acc = Acc::default();
            // grammar tokens in one list, the skipped token in its own list: order of token lists, skip,
            // right, start, part and rule declarations all vary
            let mut decls = vec![Decl::Tokens((0..g.tokens.len() - 1).collect()), Decl::Tokens(vec![g.tokens.len() - 1])];
            decls.extend(g.default_decls().into_iter().filter(|d| !matches!(d, Decl::Tokens(_))));
            if decls.len() > max_decls {
                acc.inc("skipped_too_many_declarations");
                return acc;
            }
            let id = counter.fetch_add(1, std::sync::atomic::Ordering::Relaxed);
            let Ok(reference) = analyse(g, &decls, &scratch, id) else {
                acc.inc("skipped_front_end_problem");
                return acc;
            };
            if !reference.accepted {
                acc.inc("skipped_rejected");
                return acc;
            }
            acc.inc("grammars");
            // run twice in-process: identical
            if analyse(g, &decls, &scratch, id).ok().as_ref() != Some(&reference) {
                acc.violation(Violation {
                    key: "same-input-differs-in-process".into(),
                    summary: format!("C15: two runs on the same text differ: `{}`", g.text_with(&decls).replace('\n', " ")),
                    replay: json!({"sexp": vmodel::sexp::to_sexp(g)}),
                });
            }
            for perm in permutations(decls.len()) {
                let pd: Vec<Decl> = perm.iter().map(|i| decls[*i].clone()).collect();
                acc.inc("permutations");
                let other = match analyse(g, &pd, &scratch, id) {
                    Ok(o) => o,
                    Err(e) => {
                        acc.violation(Violation {
                            key: "permutation-breaks-front-end".into(),
                            summary: format!("C15: {e} for `{}`", g.text_with(&pd).replace('\n', " ")),
                            replay: json!({"sexp": vmodel::sexp::to_sexp(g), "permutation": perm}),
                        });
                        continue;
                    }
                };
                let what = if other.accepted != reference.accepted {
                    Some("acceptance")
                } else if other.diags != reference.diags {
                    Some("warnings")
                } else if other.sets != reference.sets {
                    Some("analysis-sets")
                } else if other.code != reference.code {
                    Some("generated-code")
                } else {
                    None
                };
                if let Some(w) = what {
                    acc.violation(Violation {
                        key: format!("declaration-order:{w}"),
                        summary: format!(
                            "C15: {w} change when the declarations are reordered: `{}` vs `{}`",
                            g.text_with(&decls).replace('\n', " "),
                            g.text_with(&pd).replace('\n', " ")
                        ),
                        replay: json!({"sexp": vmodel::sexp::to_sexp(g), "permutation": perm, "what": w,
                            "reference_diags": format!("{:?}", reference.diags), "permuted_diags": format!("{:?}", other.diags)}),
                    });
                    break;
                }
            }
            acc.outcome(&format!("{:?}", reference.diags));
            if acc.samples.len() < 2 {
                acc.sample(json!({"grammar": g.text_with(&decls), "declarations": decls.len(), "permutations": (1..=decls.len()).product::<usize>()}));
            }
            acc
        })
        .reduce(Acc::default, Acc::merge);
    // fresh processes: the real llw on a fixed sample, R runs each from different working directories
    let mut proc_runs = 0u64;
    let mut violations: Vec<Violation> = vec![];
    if let Ok(llw) = std::env::var("VERIF_LLW") {
        let mut files: Vec<std::path::PathBuf> = vec![];
        for dir in ["/repo/examples", "/repo/src/frontend", "/repo/tests/frontend"] {
            collect_llw(std::path::Path::new(dir), &mut files);
        }
        files.sort();
        let results: Vec<(std::path::PathBuf, BTreeMap<String, usize>, u64)> = files
            .par_iter()
            .enumerate()
            .map(|(fi, f)| {
                let mut seen: BTreeMap<String, usize> = BTreeMap::new();
                let mut runs = 0;
                let src = std::fs::read(f).unwrap_or_default();
                for r in 0..3 {
                    let d = scratch.join(format!("proc{fi}_{r}"));
                    let cwd = d.join(format!("cwd{r}/deeper{}", "x".repeat(r * 7)));
                    let _ = std::fs::create_dir_all(&cwd);
                    let gpath = d.join("g.llw");
                    let _ = std::fs::write(&gpath, &src);
                    let out = std::process::Command::new(&llw)
                        .arg("-s")
                        .arg("-o")
                        .arg(&d)
                        .arg(&gpath)
                        .current_dir(&cwd)
                        .env("VERIF_PADDING", "y".repeat(r * 1000))
                        .output();
                    runs += 1;
                    if let Ok(o) = out {
                        let gen = std::fs::read(d.join("generated.rs")).unwrap_or_default();
                        let stderr = String::from_utf8_lossy(&o.stderr).replace(&*d.to_string_lossy(), "<dir>");
                        let sig = format!("{}|{}|{:?}", vcommon::content_hash(&gen), vcommon::content_hash(stderr.as_bytes()), o.status.code());
                        *seen.entry(sig).or_insert(0) += 1;
                    }
                    let _ = std::fs::remove_dir_all(&d);
                }
                (f.clone(), seen, runs)
            })
            .collect();
        for (f, seen, runs) in results {
            proc_runs += runs;
            if seen.len() > 1 {
                violations.push(Violation {
                    key: "fresh-process-output-differs".into(),
                    summary: format!("C15: repeated llw runs on {} gave {} different outputs", f.display(), seen.len()),
                    replay: json!({"file": f.display().to_string(), "signatures": seen}),
                });
            }
        }
    }
    vcommon::remove_dir(&scratch);
    let coverage = json!({
        "states": acc.get("grammars").max(1),
        "transitions": (acc.get("permutations") + proc_runs).max(1),
        "traces_validated_against_impl": acc.get("permutations") + proc_runs,
        "evaluations": acc.get("permutations") + proc_runs,
        "distinct_nontrivial": acc.get("permutations"),
        "rule": "every accepted grammar of the families (two skipped tokens added, token lists split one token per declaration so that order matters) with at most N top-level declarations is analysed under ALL permutations of its declarations: diagnostics as multisets of (code, message, text under each label), first/follow/predict/recovery per aligned regex occurrence, emitted code as multiset of rule functions + multiset of part entry functions + remainder with sorted skip patterns must be identical; the same text is analysed twice in-process; the real llw is run 3 times in fresh processes from different working directories / environment sizes on every grammar file of the repository and must produce byte-identical generated.rs and stderr. The random seed of a std HashMap cannot be enumerated: repetitions enumerate run indices, not seeds",
        "samples": acc.samples,
        "exhaustive": true,
        "bounds": {"max_declarations": max_decls, "fresh_process_runs": proc_runs},
        "counters": acc.counters,
        "distinct_outcomes": acc.outcomes.len(),
        "violations_total": acc.violation_total,
    });
    for v in acc.violations {
        rep.violation(v);
    }
    for v in violations {
        rep.violation(v);
    }
    rep.finish(coverage)
}

fn collect_llw(dir: &std::path::Path, out: &mut Vec<std::path::PathBuf>) {
    let Ok(rd) = std::fs::read_dir(dir) else { return };
    for e in rd.flatten() {
        let p = e.path();
        if p.is_dir() {
            if p.file_name().is_some_and(|n| n == "target") {
                continue;
            }
            collect_llw(&p, out);
        } else if p.extension().is_some_and(|x| x == "llw") {
            out.push(p);
        }
    }
}
