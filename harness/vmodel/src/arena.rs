//! Flattened view of a grammar: every regex occurrence gets a NodeId (pre-order per rule, rules in order).

use crate::{Grammar, Rx};

pub type NodeId = usize;

#[derive(Clone, Debug, PartialEq, Eq)]
pub enum K {
    Tok(usize),
    Ref(usize),
    Concat,
    Alt,
    Choice,
    Star,
    Plus,
    Opt,
    Paren,
    /// zero-width operator (predicate, action, assertion, rename, elision, marker, creation, commit, return)
    Op(Rx),
}

#[derive(Clone, Debug)]
pub struct Node {
    pub rule: usize,
    pub kind: K,
    pub children: Vec<NodeId>,
    pub parent: Option<NodeId>,
    /// child-index path from the rule body
    pub path: Vec<usize>,
}

#[derive(Clone, Debug)]
pub struct Arena {
    pub nodes: Vec<Node>,
    pub roots: Vec<Option<NodeId>>,
}

impl Arena {
    pub fn build(g: &Grammar) -> Arena {
        let mut a = Arena {
            nodes: vec![],
            roots: vec![],
        };
        for (i, r) in g.rules.iter().enumerate() {
            let root = r.body.as_ref().map(|b| a.add(i, b, None, vec![]));
            a.roots.push(root);
        }
        a
    }
    fn add(&mut self, rule: usize, r: &Rx, parent: Option<NodeId>, path: Vec<usize>) -> NodeId {
        let id = self.nodes.len();
        let kind = match r {
            Rx::Tok(t) | Rx::Sym(t) => K::Tok(*t),
            Rx::Ref(i) => K::Ref(*i),
            Rx::Concat(_) => K::Concat,
            Rx::Alt(_) => K::Alt,
            Rx::Choice(_) => K::Choice,
            Rx::Star(_) => K::Star,
            Rx::Plus(_) => K::Plus,
            Rx::Opt(_) => K::Opt,
            Rx::Paren(_) => K::Paren,
            op => K::Op(op.clone()),
        };
        self.nodes.push(Node {
            rule,
            kind,
            children: vec![],
            parent,
            path: path.clone(),
        });
        let mut kids = vec![];
        for (ci, c) in r.children().into_iter().enumerate() {
            let mut p = path.clone();
            p.push(ci);
            kids.push(self.add(rule, c, Some(id), p));
        }
        self.nodes[id].children = kids;
        id
    }
    pub fn len(&self) -> usize {
        self.nodes.len()
    }
    pub fn is_empty(&self) -> bool {
        self.nodes.is_empty()
    }
    /// First child that is not a predicate when looking for a guard: a node is *guarded* iff it is a Concat
    /// whose first element is a predicate, or a Paren around a guarded node.
    pub fn guard(&self, id: NodeId) -> Option<&Rx> {
        match &self.nodes[id].kind {
            K::Concat => match &self.nodes[self.nodes[id].children[0]].kind {
                K::Op(p @ Rx::Pred(_)) => Some(p),
                _ => None,
            },
            K::Paren => self.nodes[id].children.first().and_then(|c| self.guard(*c)),
            _ => None,
        }
    }
    pub fn describe(&self, g: &Grammar, id: NodeId) -> String {
        format!(
            "{}:{:?}",
            g.rules[self.nodes[id].rule].name,
            self.nodes[id].path
        )
    }
}
