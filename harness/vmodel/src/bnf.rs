//! R-BNF: desugar every regex occurrence to its own nonterminal of a plain BNF and run the textbook
//! nullable / FIRST / FOLLOW iteration on the productions.

use crate::arena::{Arena, NodeId, K};
use crate::Grammar;
use std::collections::BTreeSet;

#[derive(Clone, Copy, Debug, PartialEq, Eq, Hash, PartialOrd, Ord)]
pub enum Sym {
    T(usize),
    N(usize),
}

#[derive(Clone, Debug)]
pub struct Bnf {
    pub nterm: usize,
    pub nnonterm: usize,
    pub prods: Vec<(usize, Vec<Sym>)>,
    /// nonterminal of arena node i is i; of rule r is rule_nt[r]; augmented start of entry k is aug[k]
    pub rule_nt: Vec<usize>,
    pub aug: Vec<usize>,
    /// end marker terminal of entry k (0 = start rule: EOF; k>0: EOF<Part>)
    pub eof: Vec<usize>,
    pub prods_of: Vec<Vec<usize>>,
}

pub fn pascal(name: &str) -> String {
    let mut res = String::new();
    let mut upper = true;
    for c in name.chars() {
        if upper {
            res.push(c.to_ascii_uppercase());
            upper = false;
        } else if c == '_' {
            upper = true;
        } else {
            res.push(c);
        }
    }
    res
}

pub fn terminal_name(g: &Grammar, t: usize) -> String {
    let n = g.tokens.len();
    if t < n {
        g.tokens[t].name.clone()
    } else if t == n {
        "EOF".to_string()
    } else {
        format!("EOF{}", pascal(&g.rules[g.parts[t - n - 1]].name))
    }
}

impl Bnf {
    pub fn build(g: &Grammar, a: &Arena) -> Bnf {
        let n = a.len();
        let ntok = g.tokens.len();
        let mut prods: Vec<(usize, Vec<Sym>)> = vec![];
        let rule_nt: Vec<usize> = (0..g.rules.len()).map(|r| n + r).collect();
        let mut next = n + g.rules.len();
        for (id, node) in a.nodes.iter().enumerate() {
            let kids: Vec<Sym> = node.children.iter().map(|c| Sym::N(*c)).collect();
            match &node.kind {
                K::Tok(t) => prods.push((id, vec![Sym::T(*t)])),
                K::Ref(r) => prods.push((id, vec![Sym::N(rule_nt[*r])])),
                K::Concat => prods.push((id, kids)),
                K::Alt | K::Choice => {
                    for k in kids {
                        prods.push((id, vec![k]))
                    }
                }
                K::Star => {
                    prods.push((id, vec![]));
                    prods.push((id, vec![kids[0], Sym::N(id)]));
                }
                K::Plus => {
                    let helper = next;
                    next += 1;
                    prods.push((id, vec![kids[0], Sym::N(helper)]));
                    prods.push((helper, vec![]));
                    prods.push((helper, vec![kids[0], Sym::N(helper)]));
                }
                K::Opt => {
                    prods.push((id, vec![]));
                    prods.push((id, vec![kids[0]]));
                }
                K::Paren => prods.push((id, kids)),
                K::Op(_) => prods.push((id, vec![])),
            }
        }
        for (r, root) in a.roots.iter().enumerate() {
            match root {
                Some(b) => prods.push((rule_nt[r], vec![Sym::N(*b)])),
                None => prods.push((rule_nt[r], vec![])),
            }
        }
        let mut aug = vec![];
        let mut eof = vec![];
        for (k, e) in g.entries().into_iter().enumerate() {
            let nt = next;
            next += 1;
            let t = ntok + k;
            prods.push((nt, vec![Sym::N(rule_nt[e]), Sym::T(t)]));
            aug.push(nt);
            eof.push(t);
        }
        let mut prods_of = vec![vec![]; next];
        for (i, (l, _)) in prods.iter().enumerate() {
            prods_of[*l].push(i);
        }
        Bnf {
            nterm: ntok + 1 + g.parts.len(),
            nnonterm: next,
            prods,
            rule_nt,
            aug,
            eof,
            prods_of,
        }
    }
}

#[derive(Clone, Debug)]
pub struct Sets {
    pub nullable: Vec<bool>,
    pub first: Vec<BTreeSet<usize>>,
    pub follow: Vec<BTreeSet<usize>>,
}

impl Sets {
    /// Textbook fixpoint (Aho/Sethi/Ullman): nullable, FIRST, FOLLOW over all productions.
    pub fn compute(b: &Bnf) -> Sets {
        let n = b.nnonterm;
        let mut nullable = vec![false; n];
        let mut first: Vec<BTreeSet<usize>> = vec![BTreeSet::new(); n];
        let mut follow: Vec<BTreeSet<usize>> = vec![BTreeSet::new(); n];
        loop {
            let mut change = false;
            for (lhs, rhs) in &b.prods {
                // nullable
                if !nullable[*lhs]
                    && rhs.iter().all(|s| match s {
                        Sym::T(_) => false,
                        Sym::N(x) => nullable[*x],
                    })
                {
                    nullable[*lhs] = true;
                    change = true;
                }
                // first
                for s in rhs {
                    match s {
                        Sym::T(t) => {
                            change |= first[*lhs].insert(*t);
                            break;
                        }
                        Sym::N(x) => {
                            if x != lhs {
                                let add: Vec<usize> = first[*x].iter().copied().collect();
                                for t in add {
                                    change |= first[*lhs].insert(t);
                                }
                            }
                            if !nullable[*x] {
                                break;
                            }
                        }
                    }
                }
                // follow
                for i in 0..rhs.len() {
                    let Sym::N(x) = rhs[i] else { continue };
                    let mut rest_nullable = true;
                    for s in &rhs[i + 1..] {
                        match s {
                            Sym::T(t) => {
                                change |= follow[x].insert(*t);
                                rest_nullable = false;
                                break;
                            }
                            Sym::N(y) => {
                                let add: Vec<usize> = first[*y].iter().copied().collect();
                                for t in add {
                                    change |= follow[x].insert(t);
                                }
                                if !nullable[*y] {
                                    rest_nullable = false;
                                    break;
                                }
                            }
                        }
                    }
                    if rest_nullable && x != *lhs {
                        let add: Vec<usize> = follow[*lhs].iter().copied().collect();
                        for t in add {
                            change |= follow[x].insert(t);
                        }
                    }
                }
            }
            if !change {
                break;
            }
        }
        Sets {
            nullable,
            first,
            follow,
        }
    }
    pub fn predict(&self, nt: usize) -> BTreeSet<usize> {
        let mut p = self.first[nt].clone();
        if self.nullable[nt] {
            p.extend(self.follow[nt].iter().copied());
        }
        p
    }
    pub fn node_predict(&self, id: NodeId) -> BTreeSet<usize> {
        self.predict(id)
    }
}
