//! Compact, loss-free text serialisation of a Grammar (used to hand models to compiled batch binaries and
//! to store them in replay files).

use crate::{Grammar, RuleDef, Rx, TokenDef};

fn hex(s: &str) -> String {
    let mut o = String::from("x");
    for b in s.bytes() {
        o.push_str(&format!("{b:02x}"));
    }
    o
}
fn unhex(s: &str) -> String {
    let s = &s[1..];
    let bytes: Vec<u8> = (0..s.len() / 2)
        .map(|i| u8::from_str_radix(&s[2 * i..2 * i + 2], 16).unwrap())
        .collect();
    String::from_utf8(bytes).unwrap()
}

fn rx_to(r: &Rx, o: &mut String) {
    let list = |tag: &str, v: &[Rx], o: &mut String| {
        o.push('(');
        o.push_str(tag);
        for x in v {
            o.push(' ');
            rx_to(x, o);
        }
        o.push(')');
    };
    match r {
        Rx::Tok(t) => o.push_str(&format!("t{t}")),
        Rx::Sym(t) => o.push_str(&format!("y{t}")),
        Rx::Ref(i) => o.push_str(&format!("r{i}")),
        Rx::Concat(v) => list("cat", v, o),
        Rx::Alt(v) => list("alt", v, o),
        Rx::Choice(v) => list("cho", v, o),
        Rx::Star(x) => list("star", std::slice::from_ref(x.as_ref()), o),
        Rx::Plus(x) => list("plus", std::slice::from_ref(x.as_ref()), o),
        Rx::Opt(x) => list("opt", std::slice::from_ref(x.as_ref()), o),
        Rx::Paren(Some(x)) => list("par", std::slice::from_ref(x.as_ref()), o),
        Rx::Paren(None) => o.push_str("(par)"),
        Rx::Pred(None) => o.push_str("?t"),
        Rx::Pred(Some(n)) => o.push_str(&format!("?{n}")),
        Rx::Action(n) => o.push_str(&format!("#{n}")),
        Rx::Assert(n) => o.push_str(&format!("!{n}")),
        Rx::Rename(n) => o.push_str(&format!("@{n}")),
        Rx::Elide => o.push('^'),
        Rx::Marker(n) => o.push_str(&format!("<{n}")),
        Rx::Create(n, name) => {
            o.push_str(&format!(
                "{}>{}",
                n.map_or(String::new(), |n| n.to_string()),
                name.clone().unwrap_or_default()
            ));
        }
        Rx::Commit => o.push('~'),
        Rx::Return => o.push('&'),
    }
}

pub fn to_sexp(g: &Grammar) -> String {
    let mut o = String::from("(g (tok");
    for t in &g.tokens {
        o.push(' ');
        o.push_str(&t.name);
        if let Some(s) = &t.symbol {
            o.push('=');
            o.push_str(&hex(s));
        }
    }
    o.push_str(") (skip");
    for s in &g.skip {
        o.push_str(&format!(" {s}"));
    }
    o.push_str(") (right");
    for s in &g.right {
        o.push_str(&format!(" {s}"));
    }
    o.push_str(&format!(") (start {}) (parts", g.start));
    for s in &g.parts {
        o.push_str(&format!(" {s}"));
    }
    o.push(')');
    for r in &g.rules {
        o.push_str(&format!(
            " (rule {}{}",
            r.name,
            if r.elided { "^" } else { "" }
        ));
        if let Some(b) = &r.body {
            o.push(' ');
            rx_to(b, &mut o);
        }
        o.push(')');
    }
    o.push(')');
    o
}

#[derive(Debug, Clone)]
enum S {
    A(String),
    L(Vec<S>),
}

fn parse(tokens: &[String], pos: &mut usize) -> S {
    if tokens[*pos] == "(" {
        *pos += 1;
        let mut v = vec![];
        while tokens[*pos] != ")" {
            v.push(parse(tokens, pos));
        }
        *pos += 1;
        S::L(v)
    } else {
        *pos += 1;
        S::A(tokens[*pos - 1].clone())
    }
}

fn tokenize(s: &str) -> Vec<String> {
    let mut out = vec![];
    let mut cur = String::new();
    for c in s.chars() {
        match c {
            '(' | ')' => {
                if !cur.is_empty() {
                    out.push(std::mem::take(&mut cur));
                }
                out.push(c.to_string());
            }
            ' ' | '\n' => {
                if !cur.is_empty() {
                    out.push(std::mem::take(&mut cur));
                }
            }
            c => cur.push(c),
        }
    }
    if !cur.is_empty() {
        out.push(cur);
    }
    out
}

fn rx_from(s: &S) -> Rx {
    match s {
        S::A(a) => {
            let num = |s: &str| s.parse::<u32>().unwrap();
            let first = a.chars().next().unwrap();
            match first {
                't' if a.len() > 1 && a[1..].chars().all(|c| c.is_ascii_digit()) => {
                    Rx::Tok(a[1..].parse().unwrap())
                }
                'y' => Rx::Sym(a[1..].parse().unwrap()),
                'r' => Rx::Ref(a[1..].parse().unwrap()),
                '?' => {
                    if a == "?t" {
                        Rx::Pred(None)
                    } else {
                        Rx::Pred(Some(num(&a[1..])))
                    }
                }
                '#' => Rx::Action(num(&a[1..])),
                '!' => Rx::Assert(num(&a[1..])),
                '@' => Rx::Rename(a[1..].to_string()),
                '^' => Rx::Elide,
                '<' => Rx::Marker(num(&a[1..])),
                '~' => Rx::Commit,
                '&' => Rx::Return,
                _ => {
                    let (l, r) = a.split_once('>').expect("creation");
                    Rx::Create(
                        (!l.is_empty()).then(|| num(l)),
                        (!r.is_empty()).then(|| r.to_string()),
                    )
                }
            }
        }
        S::L(v) => {
            let S::A(tag) = &v[0] else { panic!() };
            let kids: Vec<Rx> = v[1..].iter().map(rx_from).collect();
            match tag.as_str() {
                "cat" => Rx::Concat(kids),
                "alt" => Rx::Alt(kids),
                "cho" => Rx::Choice(kids),
                "star" => Rx::Star(Box::new(kids[0].clone())),
                "plus" => Rx::Plus(Box::new(kids[0].clone())),
                "opt" => Rx::Opt(Box::new(kids[0].clone())),
                "par" => Rx::Paren(kids.first().map(|k| Box::new(k.clone()))),
                _ => panic!("bad tag {tag}"),
            }
        }
    }
}

pub fn from_sexp(s: &str) -> Grammar {
    let toks = tokenize(s);
    let mut pos = 0;
    let S::L(top) = parse(&toks, &mut pos) else {
        panic!()
    };
    let mut g = Grammar {
        tokens: vec![],
        skip: vec![],
        right: vec![],
        start: 0,
        parts: vec![],
        rules: vec![],
    };
    let atoms = |v: &[S]| -> Vec<String> {
        v.iter()
            .map(|x| match x {
                S::A(a) => a.clone(),
                _ => panic!(),
            })
            .collect()
    };
    for item in &top[1..] {
        let S::L(v) = item else { panic!() };
        let S::A(tag) = &v[0] else { panic!() };
        match tag.as_str() {
            "tok" => {
                for a in atoms(&v[1..]) {
                    if let Some((n, s)) = a.split_once('=') {
                        g.tokens.push(TokenDef {
                            name: n.to_string(),
                            symbol: Some(unhex(s)),
                        });
                    } else {
                        g.tokens.push(TokenDef {
                            name: a,
                            symbol: None,
                        });
                    }
                }
            }
            "skip" => g.skip = atoms(&v[1..]).iter().map(|a| a.parse().unwrap()).collect(),
            "right" => g.right = atoms(&v[1..]).iter().map(|a| a.parse().unwrap()).collect(),
            "start" => g.start = atoms(&v[1..])[0].parse().unwrap(),
            "parts" => g.parts = atoms(&v[1..]).iter().map(|a| a.parse().unwrap()).collect(),
            "rule" => {
                let S::A(name) = &v[1] else { panic!() };
                let (name, elided) = match name.strip_suffix('^') {
                    Some(n) => (n.to_string(), true),
                    None => (name.clone(), false),
                };
                g.rules.push(RuleDef {
                    name,
                    elided,
                    body: v.get(2).map(rx_from),
                });
            }
            _ => panic!("bad item {tag}"),
        }
    }
    g
}
