//! Reference interpreters (R-PRED, R-DERIV, R-TREE) — see DESIGN.md.
