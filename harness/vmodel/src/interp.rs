//! Reference interpreters: R-DERIV (all derivations of a string), R-PRED (predictive value-semantics
//! interpreter for ordered choice / predicates), R-PREC (deep precedence filter) and R-TREE (expected CST
//! and action log of a derivation). Nothing here looks at lelwel's tables.

use crate::arena::{Arena, NodeId, K};
use crate::bnf::Sets;
use crate::{Grammar, Rx};
use std::collections::{BTreeSet, HashMap};

/// Derivation tree, structured like the regex it derives from.
#[derive(Clone, Debug, PartialEq, Eq)]
pub struct D {
    pub node: NodeId,
    pub kind: DK,
}

#[derive(Clone, Debug, PartialEq, Eq)]
pub enum DK {
    /// input position
    Tok(usize),
    /// application of a rule; None for an empty-bodied rule
    App(usize, Option<Box<D>>),
    Seq(Vec<D>),
    /// alternation / ordered choice: index of the branch taken
    Branch(usize, Box<D>),
    /// iterations of `*` / `+`
    Rep(Vec<D>),
    Opt(Option<Box<D>>),
    Par(Option<Box<D>>),
    /// zero-width operator
    Op,
}

// ------------------------------------------------------------------------------------------------
// R-DERIV

pub struct Deriv<'a> {
    pub g: &'a Grammar,
    pub a: &'a Arena,
    pub input: &'a [usize],
    /// cap on the number of derivations kept per (node, i, j)
    pub cap: usize,
    pub capped: bool,
    memo: HashMap<(NodeId, usize, usize), std::rc::Rc<Vec<D>>>,
    rule_memo: HashMap<(usize, usize, usize), std::rc::Rc<Vec<D>>>,
    in_progress: BTreeSet<(usize, usize, usize)>,
}

impl<'a> Deriv<'a> {
    pub fn new(g: &'a Grammar, a: &'a Arena, input: &'a [usize]) -> Self {
        Deriv {
            g,
            a,
            input,
            cap: 400,
            capped: false,
            memo: HashMap::new(),
            rule_memo: HashMap::new(),
            in_progress: BTreeSet::new(),
        }
    }
    /// all derivations of input[i..j] from rule r (as `App` nodes attributed to `at`)
    pub fn rule(&mut self, r: usize, i: usize, j: usize) -> std::rc::Rc<Vec<D>> {
        if let Some(v) = self.rule_memo.get(&(r, i, j)) {
            return v.clone();
        }
        if !self.in_progress.insert((r, i, j)) {
            // cyclic derivation (rule derives itself without consuming): ignored
            return std::rc::Rc::new(vec![]);
        }
        let res = match self.a.roots[r] {
            None => {
                if i == j {
                    vec![D {
                        node: usize::MAX,
                        kind: DK::App(r, None),
                    }]
                } else {
                    vec![]
                }
            }
            Some(root) => self
                .node(root, i, j)
                .iter()
                .map(|b| D {
                    node: usize::MAX,
                    kind: DK::App(r, Some(Box::new(b.clone()))),
                })
                .collect(),
        };
        self.in_progress.remove(&(r, i, j));
        let rc = std::rc::Rc::new(res);
        // results computed while a cycle was cut are still complete for finitely ambiguous grammars
        self.rule_memo.insert((r, i, j), rc.clone());
        rc
    }
    fn push(&mut self, out: &mut Vec<D>, d: D) {
        if out.len() < self.cap {
            out.push(d);
        } else {
            self.capped = true;
        }
    }
    pub fn node(&mut self, id: NodeId, i: usize, j: usize) -> std::rc::Rc<Vec<D>> {
        if let Some(v) = self.memo.get(&(id, i, j)) {
            return v.clone();
        }
        let n = &self.a.nodes[id];
        let mut out: Vec<D> = vec![];
        match &n.kind {
            K::Tok(t) => {
                if j == i + 1 && self.input[i] == *t {
                    out.push(D {
                        node: id,
                        kind: DK::Tok(i),
                    });
                }
            }
            K::Ref(r) => {
                for d in self.rule(*r, i, j).iter() {
                    let DK::App(r, b) = &d.kind else { unreachable!() };
                    out.push(D {
                        node: id,
                        kind: DK::App(*r, b.clone()),
                    });
                }
            }
            K::Concat => {
                let kids = n.children.clone();
                let seqs = self.seq(&kids, i, j);
                for s in seqs {
                    self.push(
                        &mut out,
                        D {
                            node: id,
                            kind: DK::Seq(s),
                        },
                    );
                }
            }
            K::Alt | K::Choice => {
                let kids = n.children.clone();
                for (bi, k) in kids.iter().enumerate() {
                    for d in self.node(*k, i, j).iter() {
                        self.push(
                            &mut out,
                            D {
                                node: id,
                                kind: DK::Branch(bi, Box::new(d.clone())),
                            },
                        );
                    }
                }
            }
            K::Star | K::Plus => {
                let body = n.children[0];
                let min = if matches!(n.kind, K::Plus) { 1 } else { 0 };
                let reps = self.reps(body, i, j, min);
                for r in reps {
                    self.push(
                        &mut out,
                        D {
                            node: id,
                            kind: DK::Rep(r),
                        },
                    );
                }
            }
            K::Opt => {
                if i == j {
                    out.push(D {
                        node: id,
                        kind: DK::Opt(None),
                    });
                }
                let body = n.children[0];
                for d in self.node(body, i, j).iter() {
                    // an empty derivation of the body is the same sentence; keep both (ambiguity is the
                    // caller's business)
                    self.push(
                        &mut out,
                        D {
                            node: id,
                            kind: DK::Opt(Some(Box::new(d.clone()))),
                        },
                    );
                }
            }
            K::Paren => match n.children.first() {
                None => {
                    if i == j {
                        out.push(D {
                            node: id,
                            kind: DK::Par(None),
                        });
                    }
                }
                Some(c) => {
                    let c = *c;
                    for d in self.node(c, i, j).iter() {
                        self.push(
                            &mut out,
                            D {
                                node: id,
                                kind: DK::Par(Some(Box::new(d.clone()))),
                            },
                        );
                    }
                }
            },
            K::Op(_) => {
                if i == j {
                    out.push(D {
                        node: id,
                        kind: DK::Op,
                    });
                }
            }
        }
        let rc = std::rc::Rc::new(out);
        // a reference evaluated while its own rule is in progress over the same span was cut (cyclic
        // derivation) and must not be remembered as "no derivation"; rule_memo covers references anyway
        if !matches!(self.a.nodes[id].kind, K::Ref(_)) {
            self.memo.insert((id, i, j), rc.clone());
        }
        rc
    }
    fn seq(&mut self, kids: &[NodeId], i: usize, j: usize) -> Vec<Vec<D>> {
        if kids.is_empty() {
            return if i == j { vec![vec![]] } else { vec![] };
        }
        let mut out = vec![];
        for k in i..=j {
            let firsts = self.node(kids[0], i, k);
            if firsts.is_empty() {
                continue;
            }
            let rests = self.seq(&kids[1..], k, j);
            for f in firsts.iter() {
                for r in &rests {
                    if out.len() >= self.cap {
                        self.capped = true;
                        return out;
                    }
                    let mut v = vec![f.clone()];
                    v.extend(r.iter().cloned());
                    out.push(v);
                }
            }
        }
        out
    }
    /// iterations: each iteration consumes at least one token (empty iterations are not derivation steps a
    /// parser can take repeatedly); `min` iterations required, an empty single iteration allowed for `+`
    fn reps(&mut self, body: NodeId, i: usize, j: usize, min: usize) -> Vec<Vec<D>> {
        let mut out = vec![];
        if i == j {
            if min == 0 {
                out.push(vec![]);
            } else {
                for d in self.node(body, i, i).iter() {
                    out.push(vec![d.clone()]);
                }
            }
            return out;
        }
        for k in i + 1..=j {
            let firsts = self.node(body, i, k);
            if firsts.is_empty() {
                continue;
            }
            let rests = if k == j {
                vec![vec![]]
            } else {
                self.reps(body, k, j, 0)
                    .into_iter()
                    .filter(|r| !r.is_empty())
                    .collect()
            };
            for f in firsts.iter() {
                for r in &rests {
                    if out.len() >= self.cap {
                        self.capped = true;
                        return out;
                    }
                    let mut v = vec![f.clone()];
                    v.extend(r.iter().cloned());
                    out.push(v);
                }
            }
        }
        out
    }
}

// ------------------------------------------------------------------------------------------------
// Recursive branches (Pratt rules) and R-PREC

#[derive(Clone, Debug, PartialEq, Eq)]
pub struct RecBranch {
    /// index of the branch in the rule's top-level alternation
    pub alt_index: usize,
    /// precedence level: 0 = tightest
    pub level: usize,
    /// element index (within the Concat) of the governed left operand
    pub left: Option<usize>,
    /// element index of the governed right operand
    pub right: Option<usize>,
    /// element index of the operator element (element after the left operand) for left branches
    pub op_elem: Option<usize>,
    pub right_assoc: bool,
}

fn ignorable(r: &Rx) -> bool {
    matches!(r, Rx::Pred(_) | Rx::Rename(_) | Rx::Elide | Rx::Action(_))
}

/// Recursive branches of rule `r` by definition (DESIGN.md appendix B).
pub fn rec_branches(g: &Grammar, a: &Arena, sets: &Sets, r: usize) -> Vec<RecBranch> {
    let mut out = vec![];
    let Some(Rx::Alt(branches)) = &g.rules[r].body else {
        return out;
    };
    let root = a.roots[r].unwrap();
    let mut level = 0;
    for (bi, b) in branches.iter().enumerate() {
        let Rx::Concat(els) = b else { continue };
        let rem: Vec<usize> = (0..els.len()).filter(|i| !ignorable(&els[*i])).collect();
        if rem.is_empty() {
            continue;
        }
        let left = (els[rem[0]] == Rx::Ref(r)).then_some(rem[0]);
        let right = (rem.len() > 1 && els[*rem.last().unwrap()] == Rx::Ref(r)).then_some(*rem.last().unwrap());
        if left.is_none() && right.is_none() {
            continue;
        }
        let op_elem = left.and_then(|_| rem.get(1).copied());
        let mut right_assoc = false;
        if let (Some(_), Some(_), Some(op)) = (left, right, op_elem) {
            let branch_node = a.nodes[root].children[bi];
            let op_node = a.nodes[branch_node].children[op];
            let f = &sets.first[op_node];
            right_assoc = !f.is_empty() && f.iter().all(|t| g.right.contains(t));
        }
        out.push(RecBranch {
            alt_index: bi,
            level,
            left,
            right,
            op_elem,
            right_assoc,
        });
        level += 1;
    }
    out
}

pub struct Prec<'a> {
    pub g: &'a Grammar,
    /// recursive branches per rule
    pub rec: Vec<Vec<RecBranch>>,
}

impl<'a> Prec<'a> {
    pub fn new(g: &'a Grammar, a: &Arena, sets: &Sets) -> Self {
        Prec {
            g,
            rec: (0..g.rules.len())
                .map(|r| {
                    let bs = rec_branches(g, a, sets, r);
                    // only rules with at least one left-recursive branch are Pratt rules
                    if bs.iter().any(|b| b.left.is_some()) {
                        bs
                    } else {
                        vec![]
                    }
                })
                .collect(),
        }
    }
    pub fn is_pratt(&self, r: usize) -> bool {
        !self.rec[r].is_empty()
    }
    /// if `d` is an application of a recursive branch of a Pratt rule: (rule, branch, elements)
    fn application<'d>(&self, d: &'d D) -> Option<(usize, &RecBranch, &'d [D])> {
        let DK::App(r, Some(body)) = &d.kind else { return None };
        if self.rec[*r].is_empty() {
            return None;
        }
        let DK::Branch(bi, inner) = &body.kind else { return None };
        let b = self.rec[*r].iter().find(|b| b.alt_index == *bi)?;
        let DK::Seq(els) = &inner.kind else { return None };
        Some((*r, b, els))
    }
    fn rspine_ok(&self, rule: usize, t: &D, level: usize, left_assoc_same: bool) -> bool {
        // every M on the right spine of t that has a governed right operand must be tighter, or of the same
        // level when the branch is left-associative
        let mut cur = t;
        loop {
            let Some((r, b, els)) = self.application(cur) else { return true };
            if r != rule {
                return true;
            }
            let Some(ri) = b.right else { return true };
            if !(b.level < level || (b.level == level && left_assoc_same)) {
                return false;
            }
            cur = &els[ri];
        }
    }
    fn lspine_ok(&self, rule: usize, t: &D, level: usize, right_assoc_same: bool) -> bool {
        let mut cur = t;
        loop {
            let Some((r, b, els)) = self.application(cur) else { return true };
            if r != rule {
                return true;
            }
            let Some(li) = b.left else { return true };
            if !(b.level < level || (b.level == level && right_assoc_same)) {
                return false;
            }
            cur = &els[li];
        }
    }
    /// deep precedence conditions on the whole derivation
    pub fn ok(&self, d: &D) -> bool {
        if let Some((rule, b, els)) = self.application(d) {
            if let Some(li) = b.left {
                // same level allowed on the left iff the branch is left-associative (or has no right operand)
                let left_assoc = !(b.right.is_some() && b.right_assoc);
                if !self.rspine_ok(rule, &els[li], b.level, left_assoc) {
                    return false;
                }
            }
            if let Some(ri) = b.right {
                let right_assoc = b.left.is_none() || b.right_assoc;
                if !self.lspine_ok(rule, &els[ri], b.level, right_assoc) {
                    return false;
                }
            }
        }
        match &d.kind {
            DK::App(_, Some(b)) => self.ok(b),
            DK::Seq(v) | DK::Rep(v) => v.iter().all(|x| self.ok(x)),
            DK::Branch(_, b) => self.ok(b),
            DK::Opt(Some(b)) | DK::Par(Some(b)) => self.ok(b),
            _ => true,
        }
    }
}

// ------------------------------------------------------------------------------------------------
// R-TREE

#[derive(Clone, Debug, PartialEq, Eq)]
pub enum ET {
    Node(String, Vec<ET>),
    /// token index (model)
    Tok(usize),
}

impl ET {
    pub fn render(&self, g: &Grammar, out: &mut String) {
        match self {
            ET::Tok(t) => {
                out.push_str(&g.tokens[*t].name);
                out.push(' ');
            }
            ET::Node(k, c) => {
                out.push_str(k);
                out.push('(');
                for x in c {
                    x.render(g, out);
                }
                out.push(')');
            }
        }
    }
}

struct Frame {
    out: Vec<ET>,
    marks: HashMap<u32, usize>,
    kind: String,
    elide: bool,
    rule: usize,
}

pub struct TreeBuilder<'a> {
    pub g: &'a Grammar,
    pub a: &'a Arena,
    pub input: &'a [usize],
    /// action log: "rule_n" in visit order
    pub actions: Vec<String>,
}

impl<'a> TreeBuilder<'a> {
    pub fn new(g: &'a Grammar, a: &'a Arena, input: &'a [usize]) -> Self {
        TreeBuilder {
            g,
            a,
            input,
            actions: vec![],
        }
    }
    /// tree contribution of an application of rule r (with body derivation) to its parent
    pub fn app(&mut self, r: usize, body: Option<&D>, force_node: bool) -> Vec<ET> {
        let mut f = Frame {
            out: vec![],
            marks: HashMap::new(),
            kind: self.g.rules[r].name.clone(),
            elide: false,
            rule: r,
        };
        if let Some(b) = body {
            self.visit(b, &mut f);
        }
        if !force_node && (self.g.rules[r].elided || f.elide) {
            f.out
        } else {
            vec![ET::Node(f.kind, f.out)]
        }
    }
    fn visit(&mut self, d: &D, f: &mut Frame) {
        match &d.kind {
            DK::Tok(i) => f.out.push(ET::Tok(self.input[*i])),
            DK::App(r, b) => {
                let sub = self.app(*r, b.as_deref(), false);
                f.out.extend(sub);
            }
            DK::Seq(v) | DK::Rep(v) => {
                for x in v {
                    self.visit(x, f)
                }
            }
            DK::Branch(_, b) => self.visit(b, f),
            DK::Opt(b) | DK::Par(b) => {
                if let Some(b) = b {
                    self.visit(b, f)
                }
            }
            DK::Op => {
                let K::Op(op) = &self.a.nodes[d.node].kind else {
                    unreachable!()
                };
                match op {
                    Rx::Rename(n) => f.kind = n.clone(),
                    Rx::Elide => f.elide = true,
                    Rx::Marker(n) => {
                        f.marks.insert(*n, f.out.len());
                    }
                    Rx::Create(n, name) => {
                        let from = match n {
                            Some(n) => *f.marks.get(n).unwrap_or(&0),
                            None => 0,
                        };
                        let from = from.min(f.out.len());
                        let inner: Vec<ET> = f.out.drain(from..).collect();
                        let name = name
                            .clone()
                            .unwrap_or_else(|| self.g.rules[f.rule].name.clone());
                        f.out.push(ET::Node(name, inner));
                    }
                    Rx::Action(n) => self
                        .actions
                        .push(format!("{}_{}", self.g.rules[f.rule].name, n)),
                    _ => {}
                }
            }
        }
    }
    /// expected tree for entry point `entry` (index into g.entries()) given the derivation of the entry rule
    pub fn root(&mut self, entry: usize, d: &D) -> ET {
        let DK::App(r, b) = &d.kind else { unreachable!() };
        if entry == 0 {
            // the start rule is the root node itself
            let mut v = self.app(*r, b.as_deref(), true);
            v.pop().unwrap()
        } else {
            ET::Node("part".to_string(), self.app(*r, b.as_deref(), false))
        }
    }
}

// ------------------------------------------------------------------------------------------------
// R-PRED

#[derive(Clone, Copy, Debug, PartialEq, Eq)]
pub enum Mode {
    Normal,
    Attempt,
}

#[derive(Clone, Debug, PartialEq, Eq)]
pub enum Stop {
    /// mismatch inside an attempt: the alternative is abandoned
    Fail,
    /// mismatch in normal mode: a diagnostic is due, the input is rejected
    Error,
}

pub struct Pred<'a> {
    pub g: &'a Grammar,
    pub a: &'a Arena,
    pub sets: &'a Sets,
    pub input: &'a [usize],
    /// terminal used as lookahead at end of input
    pub eof: usize,
    /// answers: consultation indices (predicates and assertions share the counter) that deviate from the default
    pub deviations: &'a [usize],
    pub consulted: usize,
    /// a failing assertion in normal mode: diagnostic, parse continues
    pub assertion_diag: bool,
    /// number of alternatives abandoned
    pub abandoned: usize,
    /// recursion guard
    depth: usize,
    pub overflow: bool,
}

impl<'a> Pred<'a> {
    pub fn new(g: &'a Grammar, a: &'a Arena, sets: &'a Sets, input: &'a [usize], eof: usize, deviations: &'a [usize]) -> Self {
        Pred {
            g,
            a,
            sets,
            input,
            eof,
            deviations,
            consulted: 0,
            assertion_diag: false,
            abandoned: 0,
            depth: 0,
            overflow: false,
        }
    }
    fn la(&self, i: usize) -> usize {
        self.input.get(i).copied().unwrap_or(self.eof)
    }
    fn consult(&mut self) -> bool {
        let i = self.consulted;
        self.consulted += 1;
        !self.deviations.contains(&i)
    }
    fn stop(mode: Mode) -> Stop {
        match mode {
            Mode::Attempt => Stop::Fail,
            Mode::Normal => Stop::Error,
        }
    }
    /// the guard of a branch / loop body holds (consults the script for `?n`)
    fn guard_ok(&mut self, id: NodeId) -> bool {
        match self.a.guard(id) {
            None => true,
            Some(Rx::Pred(None)) => true,
            Some(Rx::Pred(Some(_))) => self.consult(),
            _ => true,
        }
    }
    /// Top level: Some(derivation) iff the input is accepted without any diagnostic.
    pub fn parse(&mut self, rule: usize) -> Option<D> {
        let (j, d, _) = self.rule(rule, 0, Mode::Normal).ok()?;
        if j != self.input.len() || self.assertion_diag || self.overflow {
            return None;
        }
        Some(D {
            node: usize::MAX,
            kind: d,
        })
    }
    fn rule(&mut self, r: usize, i: usize, mode: Mode) -> Result<(usize, DK, Mode), Stop> {
        match self.a.roots[r] {
            None => Ok((i, DK::App(r, None), mode)),
            Some(root) => {
                let (j, d, m) = self.run(root, i, mode)?;
                Ok((j, DK::App(r, Some(Box::new(d))), m))
            }
        }
    }
    fn run(&mut self, id: NodeId, i: usize, mode: Mode) -> Result<(usize, D, Mode), Stop> {
        self.depth += 1;
        if self.depth > 200 {
            self.overflow = true;
            self.depth -= 1;
            return Err(Stop::Error);
        }
        let r = self.run_inner(id, i, mode);
        self.depth -= 1;
        r
    }
    fn run_inner(&mut self, id: NodeId, i: usize, mode: Mode) -> Result<(usize, D, Mode), Stop> {
        let n = &self.a.nodes[id];
        let mk = |kind: DK| D { node: id, kind };
        match &n.kind {
            K::Tok(t) => {
                if self.la(i) == *t && i < self.input.len() {
                    Ok((i + 1, mk(DK::Tok(i)), mode))
                } else {
                    Err(Self::stop(mode))
                }
            }
            K::Ref(r) => {
                let (j, d, m) = self.rule(*r, i, mode)?;
                Ok((j, mk(d), m))
            }
            K::Concat => {
                let mut pos = i;
                let mut mode = mode;
                let mut v = vec![];
                for c in n.children.clone() {
                    let (j, d, m) = self.run(c, pos, mode)?;
                    pos = j;
                    mode = m;
                    v.push(d);
                }
                Ok((pos, mk(DK::Seq(v)), mode))
            }
            K::Alt => {
                let la = self.la(i);
                for (bi, c) in n.children.clone().into_iter().enumerate() {
                    if self.sets.predict(c).contains(&la) && self.guard_ok(c) {
                        let (j, d, m) = self.run(c, i, mode)?;
                        return Ok((j, mk(DK::Branch(bi, Box::new(d))), m));
                    }
                }
                Err(Self::stop(mode))
            }
            K::Choice => {
                let la = self.la(i);
                let kids = n.children.clone();
                let last = kids.len() - 1;
                for (bi, c) in kids.iter().enumerate() {
                    if bi == last {
                        break;
                    }
                    if self.sets.predict(*c).contains(&la) {
                        let saved = (self.consulted, self.assertion_diag);
                        match self.run(*c, i, Mode::Attempt) {
                            // once the choice is over the parser behaves as if only the chosen alternative
                            // had been tried: the mode of the context is restored
                            Ok((j, d, _)) => return Ok((j, mk(DK::Branch(bi, Box::new(d))), mode)),
                            Err(Stop::Fail) => {
                                // consultations made inside an abandoned attempt did happen (callbacks are
                                // pure); the script counter keeps running
                                let _ = saved;
                                self.abandoned += 1;
                            }
                            Err(Stop::Error) => return Err(Stop::Error),
                        }
                    }
                }
                let c = kids[last];
                if self.sets.predict(c).contains(&la) {
                    let (j, d, _) = self.run(c, i, Mode::Normal)?;
                    Ok((j, mk(DK::Branch(last, Box::new(d))), mode))
                } else {
                    Err(Stop::Error)
                }
            }
            K::Star | K::Plus => {
                let body = n.children[0];
                let mut pos = i;
                let mut mode = mode;
                let mut v = vec![];
                if matches!(n.kind, K::Plus) {
                    let (j, d, m) = self.run(body, pos, mode)?;
                    pos = j;
                    mode = m;
                    v.push(d);
                }
                loop {
                    let la = self.la(pos);
                    if self.sets.first[body].contains(&la) && self.guard_ok(body) {
                        let (j, d, m) = self.run(body, pos, mode)?;
                        if j == pos {
                            // no progress: a conflict-free grammar cannot get here
                            return Err(Stop::Error);
                        }
                        pos = j;
                        mode = m;
                        v.push(d);
                    } else if self.sets.follow[id].contains(&la) {
                        break;
                    } else {
                        return Err(Self::stop(mode));
                    }
                }
                Ok((pos, mk(DK::Rep(v)), mode))
            }
            K::Opt => {
                let body = n.children[0];
                let la = self.la(i);
                if self.sets.first[body].contains(&la) && self.guard_ok(body) {
                    let (j, d, m) = self.run(body, i, mode)?;
                    Ok((j, mk(DK::Opt(Some(Box::new(d)))), m))
                } else if self.sets.follow[id].contains(&la) {
                    Ok((i, mk(DK::Opt(None)), mode))
                } else {
                    Err(Self::stop(mode))
                }
            }
            K::Paren => match n.children.first().copied() {
                None => Ok((i, mk(DK::Par(None)), mode)),
                Some(c) => {
                    let (j, d, m) = self.run(c, i, mode)?;
                    Ok((j, mk(DK::Par(Some(Box::new(d)))), m))
                }
            },
            K::Op(op) => match op {
                Rx::Commit => Ok((i, mk(DK::Op), Mode::Normal)),
                Rx::Assert(_) => {
                    if self.consult() {
                        Ok((i, mk(DK::Op), mode))
                    } else if mode == Mode::Attempt {
                        Err(Stop::Fail)
                    } else {
                        self.assertion_diag = true;
                        Ok((i, mk(DK::Op), mode))
                    }
                }
                _ => Ok((i, mk(DK::Op), mode)),
            },
        }
    }
}
