//! R-CONF: expected LL(1) conflicts from the textbook sets and the definition of each conflict.

use crate::arena::{Arena, NodeId, K};
use crate::bnf::Sets;
use crate::interp::{rec_branches, RecBranch};
use crate::Grammar;
use std::collections::BTreeSet;

#[derive(Clone, Debug, PartialEq, Eq, PartialOrd, Ord)]
pub enum Conflict {
    /// E011 at alternation node
    Alt(NodeId),
    /// E012 in rule
    LeftRec(usize),
    /// E013 at `*` / `+` node
    Rep(NodeId),
    /// E014 at `[]` node
    Opt(NodeId),
}

fn meets(a: &BTreeSet<usize>, b: &BTreeSet<usize>) -> bool {
    a.iter().any(|x| b.contains(x))
}

/// Pratt rules: rules with at least one left-recursive top-level branch.
pub fn pratt_branches(g: &Grammar, a: &Arena, sets: &Sets, r: usize) -> Vec<RecBranch> {
    let bs = rec_branches(g, a, sets, r);
    if bs.iter().any(|b| b.left.is_some()) {
        bs
    } else {
        vec![]
    }
}

pub fn conflicts(g: &Grammar, a: &Arena, sets: &Sets) -> BTreeSet<Conflict> {
    let mut out = BTreeSet::new();
    // left-recursive rules
    let mut left_rec_branch_nodes: BTreeSet<NodeId> = BTreeSet::new();
    let mut governed: BTreeSet<NodeId> = BTreeSet::new();
    let mut pratt: Vec<Vec<RecBranch>> = vec![];
    for r in 0..g.rules.len() {
        let bs = pratt_branches(g, a, sets, r);
        if let Some(root) = a.roots[r] {
            for b in &bs {
                let bn = a.nodes[root].children[b.alt_index];
                if b.left.is_some() {
                    left_rec_branch_nodes.insert(bn);
                }
                if let Some(l) = b.left {
                    governed.insert(a.nodes[bn].children[l]);
                }
                if let Some(ri) = b.right {
                    governed.insert(a.nodes[bn].children[ri]);
                }
            }
        }
        pratt.push(bs);
    }
    for (id, n) in a.nodes.iter().enumerate() {
        match &n.kind {
            K::Alt => {
                let branches: Vec<NodeId> = n
                    .children
                    .iter()
                    .copied()
                    .filter(|c| !left_rec_branch_nodes.contains(c))
                    .collect();
                'outer: for i in 0..branches.len() {
                    if a.guard(branches[i]).is_some() {
                        continue;
                    }
                    let pi = sets.predict(branches[i]);
                    for j in i + 1..branches.len() {
                        if meets(&pi, &sets.predict(branches[j])) {
                            out.insert(Conflict::Alt(id));
                            break 'outer;
                        }
                    }
                }
            }
            K::Star | K::Plus | K::Opt => {
                let body = n.children[0];
                if a.guard(body).is_none() && meets(&sets.predict(body), &sets.follow[id]) {
                    out.insert(if matches!(n.kind, K::Opt) {
                        Conflict::Opt(id)
                    } else {
                        Conflict::Rep(id)
                    });
                }
            }
            _ => {}
        }
    }
    for r in 0..g.rules.len() {
        let bs = &pratt[r];
        if bs.is_empty() {
            continue;
        }
        let root = a.roots[r].unwrap();
        // follow of every occurrence of the rule that is not governed by precedence
        let mut outside: BTreeSet<usize> = BTreeSet::new();
        for (id, n) in a.nodes.iter().enumerate() {
            if n.kind == K::Ref(r) && !governed.contains(&id) {
                outside.extend(sets.follow[id].iter().copied());
            }
        }
        // entry points: the rule itself being the start rule or a part adds its end marker, which is never
        // an operator token
        let lefts: Vec<&RecBranch> = bs.iter().filter(|b| b.left.is_some()).collect();
        let op_node = |b: &RecBranch| -> Option<NodeId> {
            let bn = a.nodes[root].children[b.alt_index];
            b.op_elem.map(|o| a.nodes[bn].children[o])
        };
        'rule: for (i, b) in lefts.iter().enumerate() {
            let bn = a.nodes[root].children[b.alt_index];
            if a.guard(bn).is_some() {
                continue;
            }
            let Some(oi) = op_node(b) else { continue };
            let pi = sets.predict(oi);
            if meets(&pi, &outside) {
                out.insert(Conflict::LeftRec(r));
                break 'rule;
            }
            for b2 in &lefts[i + 1..] {
                if let Some(oj) = op_node(b2) {
                    if meets(&pi, &sets.predict(oj)) {
                        out.insert(Conflict::LeftRec(r));
                        break 'rule;
                    }
                }
            }
        }
    }
    out
}
