//! R-LANG: the language of every rule restricted to strings of length <= L, by Kleene iteration on sets
//! of strings. Used as an independent cross-check of R-EARLEY membership.

use crate::arena::{Arena, NodeId, K};
use crate::Grammar;
use std::collections::BTreeSet;

pub type Str = Vec<u8>;

pub struct Lang {
    pub max_len: usize,
    pub node: Vec<BTreeSet<Str>>,
    pub rule: Vec<BTreeSet<Str>>,
}

fn concat(a: &BTreeSet<Str>, b: &BTreeSet<Str>, max: usize) -> BTreeSet<Str> {
    let mut r = BTreeSet::new();
    for x in a {
        for y in b {
            if x.len() + y.len() <= max {
                let mut z = x.clone();
                z.extend_from_slice(y);
                r.insert(z);
            }
        }
    }
    r
}

impl Lang {
    pub fn compute(g: &Grammar, a: &Arena, max_len: usize) -> Lang {
        let eps: BTreeSet<Str> = [vec![]].into_iter().collect();
        let mut node: Vec<BTreeSet<Str>> = vec![BTreeSet::new(); a.len()];
        let mut rule: Vec<BTreeSet<Str>> = vec![BTreeSet::new(); g.rules.len()];
        loop {
            let mut change = false;
            // children have larger ids than parents: iterate in reverse for fast propagation
            for id in (0..a.len()).rev() {
                let n = &a.nodes[id];
                let new: BTreeSet<Str> = match &n.kind {
                    K::Tok(t) => [vec![*t as u8]].into_iter().collect(),
                    K::Ref(r) => rule[*r].clone(),
                    K::Concat => {
                        let mut acc = eps.clone();
                        for c in &n.children {
                            acc = concat(&acc, &node[*c], max_len);
                        }
                        acc
                    }
                    K::Alt | K::Choice => {
                        let mut acc = BTreeSet::new();
                        for c in &n.children {
                            acc.extend(node[*c].iter().cloned());
                        }
                        acc
                    }
                    K::Star | K::Plus => {
                        let body = &node[n.children[0]];
                        let mut acc = if matches!(n.kind, K::Star) {
                            eps.clone()
                        } else {
                            body.clone()
                        };
                        loop {
                            let mut next = concat(&acc, body, max_len);
                            next.extend(acc.iter().cloned());
                            if next.len() == acc.len() {
                                break;
                            }
                            acc = next;
                        }
                        acc
                    }
                    K::Opt => {
                        let mut acc = node[n.children[0]].clone();
                        acc.insert(vec![]);
                        acc
                    }
                    K::Paren => match n.children.first() {
                        Some(c) => node[*c].clone(),
                        None => eps.clone(),
                    },
                    K::Op(_) => eps.clone(),
                };
                if new.len() != node[id].len() {
                    node[id] = new;
                    change = true;
                }
            }
            for r in 0..g.rules.len() {
                let new = match a.roots[r] {
                    Some(b) => node[b].clone(),
                    None => eps.clone(),
                };
                if new.len() != rule[r].len() {
                    rule[r] = new;
                    change = true;
                }
            }
            if !change {
                break;
            }
        }
        Lang {
            max_len,
            node,
            rule,
        }
    }
    pub fn node_lang(&self, id: NodeId) -> &BTreeSet<Str> {
        &self.node[id]
    }
}
