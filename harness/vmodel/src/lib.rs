//! Independent grammar model for lelwel verification: AST, printer, arena, reference algorithms
//! and family enumerators. Nothing in this crate depends on lelwel.

pub mod arena;
pub mod bnf;
pub mod conf;
pub mod earley;
pub mod families;
pub mod interp;
pub mod lang;
pub mod sexp;

use std::fmt::Write;

#[derive(Clone, Debug, PartialEq, Eq, Hash, PartialOrd, Ord)]
pub enum Rx {
    /// token referenced by name
    Tok(usize),
    /// token referenced by symbol
    Sym(usize),
    /// rule reference
    Ref(usize),
    Concat(Vec<Rx>),
    Alt(Vec<Rx>),
    Choice(Vec<Rx>),
    Star(Box<Rx>),
    Plus(Box<Rx>),
    Opt(Box<Rx>),
    Paren(Option<Box<Rx>>),
    /// `?n`; None = `?t`
    Pred(Option<u32>),
    Action(u32),
    Assert(u32),
    Rename(String),
    Elide,
    Marker(u32),
    /// `[n]>[name]`
    Create(Option<u32>, Option<String>),
    Commit,
    Return,
}

impl Rx {
    pub fn is_zero_width_op(&self) -> bool {
        matches!(
            self,
            Rx::Pred(_)
                | Rx::Action(_)
                | Rx::Assert(_)
                | Rx::Rename(_)
                | Rx::Elide
                | Rx::Marker(_)
                | Rx::Create(..)
                | Rx::Commit
                | Rx::Return
        )
    }
    pub fn children(&self) -> Vec<&Rx> {
        match self {
            Rx::Concat(v) | Rx::Alt(v) | Rx::Choice(v) => v.iter().collect(),
            Rx::Star(x) | Rx::Plus(x) | Rx::Opt(x) => vec![x.as_ref()],
            Rx::Paren(Some(x)) => vec![x.as_ref()],
            _ => vec![],
        }
    }
    pub fn walk<'a>(&'a self, f: &mut dyn FnMut(&'a Rx)) {
        f(self);
        for c in self.children() {
            c.walk(f);
        }
    }
    pub fn leaf_count(&self) -> usize {
        let mut n = 0;
        self.walk(&mut |r| {
            if matches!(r, Rx::Tok(_) | Rx::Sym(_) | Rx::Ref(_)) {
                n += 1
            }
        });
        n
    }
    pub fn contains(&self, p: &dyn Fn(&Rx) -> bool) -> bool {
        let mut found = false;
        self.walk(&mut |r| {
            if p(r) {
                found = true
            }
        });
        found
    }
    /// strips transparent parentheses
    pub fn unparen(&self) -> &Rx {
        match self {
            Rx::Paren(Some(x)) => x.unparen(),
            _ => self,
        }
    }
}

#[derive(Clone, Debug, PartialEq, Eq, Hash)]
pub struct TokenDef {
    pub name: String,
    /// symbol text without the surrounding quotes (raw, escapes included)
    pub symbol: Option<String>,
}

#[derive(Clone, Debug, PartialEq, Eq, Hash)]
pub struct RuleDef {
    pub name: String,
    pub elided: bool,
    pub body: Option<Rx>,
}

#[derive(Clone, Debug, PartialEq, Eq, Hash)]
pub struct Grammar {
    pub tokens: Vec<TokenDef>,
    pub skip: Vec<usize>,
    pub right: Vec<usize>,
    pub start: usize,
    pub parts: Vec<usize>,
    pub rules: Vec<RuleDef>,
}

/// One top-level declaration as printed; the default order is tokens, skip, right, start, parts, rules.
#[derive(Clone, Debug, PartialEq, Eq, Hash)]
pub enum Decl {
    Tokens(Vec<usize>),
    Skip(Vec<usize>),
    Right(Vec<usize>),
    Start,
    Part(Vec<usize>),
    Rule(usize),
}

pub const TOKEN_NAMES: [&str; 8] = ["A", "B", "C", "D", "L", "R", "W", "V"];
pub const RULE_NAMES: [&str; 6] = ["s", "x", "y", "z", "e", "p"];

impl Grammar {
    /// A grammar over `ntok` plain tokens named A,B,C,.. with the given rule bodies; rule 0 is the start.
    pub fn simple(ntok: usize, bodies: Vec<Option<Rx>>) -> Grammar {
        Grammar {
            tokens: (0..ntok)
                .map(|i| TokenDef {
                    name: TOKEN_NAMES[i].to_string(),
                    symbol: None,
                })
                .collect(),
            skip: vec![],
            right: vec![],
            start: 0,
            parts: vec![],
            rules: bodies
                .into_iter()
                .enumerate()
                .map(|(i, body)| RuleDef {
                    name: RULE_NAMES[i].to_string(),
                    elided: false,
                    body,
                })
                .collect(),
        }
    }
    pub fn add_token(&mut self, name: &str, symbol: Option<&str>) -> usize {
        self.tokens.push(TokenDef {
            name: name.to_string(),
            symbol: symbol.map(|s| s.to_string()),
        });
        self.tokens.len() - 1
    }
    pub fn with_skip_token(mut self) -> Grammar {
        let w = self.add_token("W", None);
        self.skip.push(w);
        self
    }
    pub fn default_decls(&self) -> Vec<Decl> {
        let mut d = vec![];
        if !self.tokens.is_empty() {
            d.push(Decl::Tokens((0..self.tokens.len()).collect()));
        }
        if !self.skip.is_empty() {
            d.push(Decl::Skip(self.skip.clone()));
        }
        if !self.right.is_empty() {
            d.push(Decl::Right(self.right.clone()));
        }
        d.push(Decl::Start);
        if !self.parts.is_empty() {
            d.push(Decl::Part(self.parts.clone()));
        }
        for i in 0..self.rules.len() {
            d.push(Decl::Rule(i));
        }
        d
    }
    /// One-token-per-declaration variant (used for declaration-order permutations).
    pub fn split_decls(&self) -> Vec<Decl> {
        let mut d = vec![];
        for i in 0..self.tokens.len() {
            d.push(Decl::Tokens(vec![i]));
        }
        for &s in &self.skip {
            d.push(Decl::Skip(vec![s]));
        }
        for &s in &self.right {
            d.push(Decl::Right(vec![s]));
        }
        d.push(Decl::Start);
        for &p in &self.parts {
            d.push(Decl::Part(vec![p]));
        }
        for i in 0..self.rules.len() {
            d.push(Decl::Rule(i));
        }
        d
    }
    pub fn lexemes_of_decl(&self, d: &Decl, out: &mut Vec<String>) {
        match d {
            Decl::Tokens(ts) => {
                out.push("token".into());
                for &t in ts {
                    out.push(self.tokens[t].name.clone());
                    if let Some(sym) = &self.tokens[t].symbol {
                        out.push("=".into());
                        out.push(format!("'{sym}'"));
                    }
                }
                out.push(";".into());
            }
            Decl::Skip(ts) => {
                out.push("skip".into());
                for &t in ts {
                    out.push(self.tokens[t].name.clone());
                }
                out.push(";".into());
            }
            Decl::Right(ts) => {
                out.push("right".into());
                for &t in ts {
                    out.push(self.tokens[t].name.clone());
                }
                out.push(";".into());
            }
            Decl::Start => {
                out.push("start".into());
                out.push(self.rules[self.start].name.clone());
                out.push(";".into());
            }
            Decl::Part(ps) => {
                out.push("part".into());
                for &p in ps {
                    out.push(self.rules[p].name.clone());
                }
                out.push(";".into());
            }
            Decl::Rule(i) => {
                let r = &self.rules[*i];
                out.push(r.name.clone());
                if r.elided {
                    out.push("^".into());
                }
                out.push(":".into());
                if let Some(b) = &r.body {
                    self.lexemes_of_rx(b, out);
                }
                out.push(";".into());
            }
        }
    }
    pub fn lexemes_of_rx(&self, r: &Rx, out: &mut Vec<String>) {
        match r {
            Rx::Tok(t) => out.push(self.tokens[*t].name.clone()),
            Rx::Sym(t) => out.push(format!(
                "'{}'",
                self.tokens[*t].symbol.as_ref().expect("Sym needs a symbol")
            )),
            Rx::Ref(i) => out.push(self.rules[*i].name.clone()),
            Rx::Concat(v) => {
                for x in v {
                    self.lexemes_of_rx(x, out)
                }
            }
            Rx::Alt(v) => {
                for (i, x) in v.iter().enumerate() {
                    if i > 0 {
                        out.push("|".into())
                    }
                    self.lexemes_of_rx(x, out)
                }
            }
            Rx::Choice(v) => {
                for (i, x) in v.iter().enumerate() {
                    if i > 0 {
                        out.push("/".into())
                    }
                    self.lexemes_of_rx(x, out)
                }
            }
            Rx::Star(x) => {
                self.lexemes_of_rx(x, out);
                out.push("*".into())
            }
            Rx::Plus(x) => {
                self.lexemes_of_rx(x, out);
                out.push("+".into())
            }
            Rx::Opt(x) => {
                out.push("[".into());
                self.lexemes_of_rx(x, out);
                out.push("]".into())
            }
            Rx::Paren(x) => {
                out.push("(".into());
                if let Some(x) = x {
                    self.lexemes_of_rx(x, out);
                }
                out.push(")".into())
            }
            Rx::Pred(None) => out.push("?t".into()),
            Rx::Pred(Some(n)) => out.push(format!("?{n}")),
            Rx::Action(n) => out.push(format!("#{n}")),
            Rx::Assert(n) => out.push(format!("!{n}")),
            Rx::Rename(n) => out.push(format!("@{n}")),
            Rx::Elide => out.push("^".into()),
            Rx::Marker(n) => out.push(format!("<{n}")),
            Rx::Create(n, name) => {
                let mut s = String::new();
                if let Some(n) = n {
                    write!(s, "{n}").unwrap();
                }
                s.push('>');
                if let Some(name) = name {
                    s.push_str(name);
                }
                out.push(s)
            }
            Rx::Commit => out.push("~".into()),
            Rx::Return => out.push("&".into()),
        }
    }
    pub fn lexemes(&self, decls: &[Decl]) -> Vec<String> {
        let mut out = vec![];
        for d in decls {
            self.lexemes_of_decl(d, &mut out);
        }
        out
    }
    /// Default text: one declaration per line, single spaces between lexemes.
    pub fn text_with(&self, decls: &[Decl]) -> String {
        let mut s = String::new();
        for d in decls {
            let mut out = vec![];
            self.lexemes_of_decl(d, &mut out);
            s.push_str(&out.join(" "));
            s.push('\n');
        }
        s
    }
    pub fn text(&self) -> String {
        self.text_with(&self.default_decls())
    }
    pub fn rx_text(&self, r: &Rx) -> String {
        let mut out = vec![];
        self.lexemes_of_rx(r, &mut out);
        out.join(" ")
    }
    pub fn walk_all<'a>(&'a self, f: &mut dyn FnMut(usize, &'a Rx)) {
        for (i, r) in self.rules.iter().enumerate() {
            if let Some(b) = &r.body {
                b.walk(&mut |x| f(i, x));
            }
        }
    }
    pub fn contains(&self, p: &dyn Fn(&Rx) -> bool) -> bool {
        self.rules
            .iter()
            .any(|r| r.body.as_ref().is_some_and(|b| b.contains(p)))
    }
    /// entry points: start rule first, then parts
    pub fn entries(&self) -> Vec<usize> {
        let mut v = vec![self.start];
        v.extend(self.parts.iter().copied());
        v
    }
    /// Rules reachable from the start rule or a part.
    pub fn reachable(&self) -> Vec<bool> {
        let mut seen = vec![false; self.rules.len()];
        let mut stack = self.entries();
        while let Some(r) = stack.pop() {
            if seen[r] {
                continue;
            }
            seen[r] = true;
            if let Some(b) = &self.rules[r].body {
                b.walk(&mut |x| {
                    if let Rx::Ref(i) = x {
                        stack.push(*i)
                    }
                });
            }
        }
        seen
    }
    /// Rules reachable from the start rule only.
    pub fn reachable_from_start(&self) -> Vec<bool> {
        let mut seen = vec![false; self.rules.len()];
        let mut stack = vec![self.start];
        while let Some(r) = stack.pop() {
            if seen[r] {
                continue;
            }
            seen[r] = true;
            if let Some(b) = &self.rules[r].body {
                b.walk(&mut |x| {
                    if let Rx::Ref(i) = x {
                        stack.push(*i)
                    }
                });
            }
        }
        seen
    }
    /// productive[r]: rule r derives some finite token string (ordered choice / predicates ignored).
    pub fn productive(&self) -> Vec<bool> {
        let mut prod = vec![false; self.rules.len()];
        fn p(r: &Rx, prod: &[bool]) -> bool {
            match r {
                Rx::Tok(_) | Rx::Sym(_) => true,
                Rx::Ref(i) => prod[*i],
                Rx::Concat(v) => v.iter().all(|x| p(x, prod)),
                Rx::Alt(v) | Rx::Choice(v) => v.iter().any(|x| p(x, prod)),
                Rx::Star(_) | Rx::Opt(_) => true,
                Rx::Plus(x) => p(x, prod),
                Rx::Paren(Some(x)) => p(x, prod),
                _ => true,
            }
        }
        loop {
            let mut change = false;
            for (i, r) in self.rules.iter().enumerate() {
                if !prod[i] {
                    let v = r.body.as_ref().map_or(true, |b| p(b, &prod));
                    if v {
                        prod[i] = true;
                        change = true;
                    }
                }
            }
            if !change {
                break;
            }
        }
        prod
    }
    /// Every sub-expression of every reachable rule derives a finite token string (stronger than rule
    /// productivity: `s: A (x | B)` with unproductive x is not fully productive). Required for viable-prefix
    /// reasoning and to keep generated parsers from recursing forever.
    pub fn fully_productive(&self) -> bool {
        let prod = self.productive();
        let reach = self.reachable();
        for (i, r) in self.rules.iter().enumerate() {
            if !reach[i] {
                continue;
            }
            if !prod[i] {
                return false;
            }
            if let Some(b) = &r.body {
                let mut ok = true;
                b.walk(&mut |x| {
                    if let Rx::Ref(j) = x {
                        if !prod[*j] {
                            ok = false
                        }
                    }
                });
                if !ok {
                    return false;
                }
            }
        }
        true
    }
    pub fn is_reduced(&self) -> bool {
        self.reachable().iter().all(|b| *b) && self.fully_productive()
    }
}

impl Grammar {
    /// A rule can reach itself in leftmost position (through nullable prefixes, any alternation / ordered
    /// choice branch, loop and option bodies) other than by the direct left recursion of a Pratt rule
    /// (top-level alternation branch that is a concatenation starting with the rule itself and continuing
    /// with something else).
    pub fn hidden_left_recursion(&self) -> bool {
        let arena = arena::Arena::build(self);
        let bnf = bnf::Bnf::build(self, &arena);
        let sets = bnf::Sets::compute(&bnf);
        // leftmost references of every rule
        fn leftmost(a: &arena::Arena, sets: &bnf::Sets, id: usize, out: &mut Vec<usize>) {
            let n = &a.nodes[id];
            match &n.kind {
                arena::K::Ref(_) => out.push(id),
                arena::K::Concat => {
                    for c in &n.children {
                        leftmost(a, sets, *c, out);
                        if !sets.nullable[*c] {
                            break;
                        }
                    }
                }
                arena::K::Tok(_) | arena::K::Op(_) => {}
                _ => {
                    for c in &n.children {
                        leftmost(a, sets, *c, out);
                    }
                }
            }
        }
        let n = self.rules.len();
        let mut edge = vec![vec![false; n]; n];
        for r in 0..n {
            let Some(root) = arena.roots[r] else { continue };
            let mut refs = vec![];
            leftmost(&arena, &sets, root, &mut refs);
            for id in refs {
                let arena::K::Ref(q) = arena.nodes[id].kind else { continue };
                // direct Pratt-style left recursion is the supported form
                let direct = q == r
                    && matches!(arena.nodes[root].kind, arena::K::Alt)
                    && arena.nodes[id].parent.is_some_and(|p| {
                        matches!(arena.nodes[p].kind, arena::K::Concat)
                            && arena.nodes[p].parent == Some(root)
                            && arena.nodes[p]
                                .children
                                .iter()
                                .find(|c| !matches!(&arena.nodes[**c].kind, arena::K::Op(Rx::Pred(_) | Rx::Rename(_) | Rx::Elide | Rx::Action(_))))
                                == Some(&id)
                            && arena.nodes[p].children.last() != Some(&id)
                    });
                if !direct {
                    edge[r][q] = true;
                }
            }
        }
        // transitive closure
        for k in 0..n {
            for i in 0..n {
                for j in 0..n {
                    if edge[i][k] && edge[k][j] {
                        edge[i][j] = true;
                    }
                }
            }
        }
        (0..n).any(|r| edge[r][r])
    }
}
