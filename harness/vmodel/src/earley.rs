//! R-EARLEY: Earley recogniser on the desugared BNF. Gives membership and the longest viable prefix.
//! The viable-prefix reading is valid when every nonterminal is productive (checked by the caller via
//! `Grammar::fully_productive`): then a non-empty item set after scanning i tokens means the first i tokens
//! can be completed to a sentence.

use crate::bnf::{Bnf, Sym};
use std::collections::HashSet;

#[derive(Clone, Copy, PartialEq, Eq, Hash, Debug)]
struct Item {
    prod: u32,
    dot: u16,
    origin: u16,
}

pub struct Earley<'a> {
    bnf: &'a Bnf,
    nullable: &'a [bool],
}

#[derive(Clone, Debug, PartialEq, Eq)]
pub struct Recognition {
    pub accepted: bool,
    /// number of leading input tokens that form a viable prefix (== input.len() if the whole input is one)
    pub viable: usize,
}

impl<'a> Earley<'a> {
    pub fn new(bnf: &'a Bnf, nullable: &'a [bool]) -> Self {
        Earley { bnf, nullable }
    }
    pub fn recognise(&self, start_nt: usize, input: &[usize]) -> Recognition {
        let n = input.len();
        let mut sets: Vec<Vec<Item>> = vec![vec![]; n + 1];
        let mut seen: Vec<HashSet<Item>> = vec![HashSet::new(); n + 1];
        for &p in &self.bnf.prods_of[start_nt] {
            let it = Item {
                prod: p as u32,
                dot: 0,
                origin: 0,
            };
            if seen[0].insert(it) {
                sets[0].push(it);
            }
        }
        let mut viable = 0;
        for i in 0..=n {
            if sets[i].is_empty() {
                break;
            }
            viable = i;
            let mut j = 0;
            while j < sets[i].len() {
                let it = sets[i][j];
                j += 1;
                let (lhs, rhs) = &self.bnf.prods[it.prod as usize];
                if (it.dot as usize) < rhs.len() {
                    match rhs[it.dot as usize] {
                        Sym::T(t) => {
                            if i < n && input[i] == t {
                                let ni = Item {
                                    prod: it.prod,
                                    dot: it.dot + 1,
                                    origin: it.origin,
                                };
                                if seen[i + 1].insert(ni) {
                                    sets[i + 1].push(ni);
                                }
                            }
                        }
                        Sym::N(x) => {
                            for &p in &self.bnf.prods_of[x] {
                                let ni = Item {
                                    prod: p as u32,
                                    dot: 0,
                                    origin: i as u16,
                                };
                                if seen[i].insert(ni) {
                                    sets[i].push(ni);
                                }
                            }
                            if self.nullable[x] {
                                let ni = Item {
                                    prod: it.prod,
                                    dot: it.dot + 1,
                                    origin: it.origin,
                                };
                                if seen[i].insert(ni) {
                                    sets[i].push(ni);
                                }
                            }
                        }
                    }
                } else {
                    // completer
                    let origin = it.origin as usize;
                    let mut k = 0;
                    while k < sets[origin].len() {
                        let parent = sets[origin][k];
                        k += 1;
                        let (_, prhs) = &self.bnf.prods[parent.prod as usize];
                        if (parent.dot as usize) < prhs.len()
                            && prhs[parent.dot as usize] == Sym::N(*lhs)
                        {
                            let ni = Item {
                                prod: parent.prod,
                                dot: parent.dot + 1,
                                origin: parent.origin,
                            };
                            if seen[i].insert(ni) {
                                sets[i].push(ni);
                            }
                        }
                    }
                }
            }
        }
        let accepted = viable == n
            && sets[n].iter().any(|it| {
                let (lhs, rhs) = &self.bnf.prods[it.prod as usize];
                *lhs == start_nt && it.dot as usize == rhs.len() && it.origin == 0
            });
        Recognition { accepted, viable }
    }
}
