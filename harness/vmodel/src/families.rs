//! Grammar families: deterministic, complete enumerations up to a size bound (simplest first).

use crate::{Grammar, RuleDef, Rx, TokenDef, RULE_NAMES, TOKEN_NAMES};
use std::collections::HashMap;

const HOLE: usize = usize::MAX;

#[derive(Clone, Copy, Debug, PartialEq, Eq, Hash)]
pub struct ShapeCfg {
    /// allow ordered choice level
    pub choice: bool,
    /// allow `(X Y)` (parenthesised concatenation) anywhere, not only where needed
    pub paren_concat: bool,
}

/// Memoised enumeration of normal-form regex shapes with `l` leaves (holes) and `u` unary operators
/// (`* + []`). Levels: 0 = alternation, 1 = ordered choice, 2 = concatenation, 3 = postfix.
pub struct Shapes {
    cfg: ShapeCfg,
    memo: HashMap<(usize, usize, u8), std::rc::Rc<Vec<Rx>>>,
}

fn compositions(total: usize, parts: usize, min: usize) -> Vec<Vec<usize>> {
    // all ordered ways to write total as a sum of `parts` integers >= min
    fn rec(total: usize, parts: usize, min: usize, cur: &mut Vec<usize>, out: &mut Vec<Vec<usize>>) {
        if parts == 1 {
            if total >= min {
                cur.push(total);
                out.push(cur.clone());
                cur.pop();
            }
            return;
        }
        let mut x = min;
        while x + min * (parts - 1) <= total {
            cur.push(x);
            rec(total - x, parts - 1, min, cur, out);
            cur.pop();
            x += 1;
        }
    }
    let mut out = vec![];
    if parts == 0 {
        if total == 0 {
            out.push(vec![]);
        }
        return out;
    }
    rec(total, parts, min, &mut vec![], &mut out);
    out
}

impl Shapes {
    pub fn new(cfg: ShapeCfg) -> Self {
        Shapes {
            cfg,
            memo: HashMap::new(),
        }
    }
    pub fn get(&mut self, l: usize, u: usize, level: u8) -> std::rc::Rc<Vec<Rx>> {
        if let Some(v) = self.memo.get(&(l, u, level)) {
            return v.clone();
        }
        let mut out: Vec<Rx> = vec![];
        if level == 3 {
            if l == 1 && u == 0 {
                out.push(Rx::Tok(HOLE));
            }
            if u >= 1 {
                for p in self.get(l, u - 1, 3).iter() {
                    out.push(Rx::Star(Box::new(p.clone())));
                    out.push(Rx::Plus(Box::new(p.clone())));
                }
                for a in self.get(l, u - 1, 0).iter() {
                    out.push(Rx::Opt(Box::new(a.clone())));
                }
            }
            if l >= 2 {
                // parentheses around multi-operand expressions
                let mut levels = vec![0u8];
                if self.cfg.choice {
                    levels.push(1);
                }
                if self.cfg.paren_concat {
                    levels.push(2);
                }
                for lv in levels {
                    for a in self.multi(l, u, lv).iter() {
                        out.push(Rx::Paren(Some(Box::new(a.clone()))));
                    }
                }
                if !self.cfg.paren_concat && u >= 1 {
                    // `(X Y)*` and `(X Y)+`: parentheses required by the syntax
                    for a in self.multi(l, u - 1, 2).iter() {
                        let p = Rx::Paren(Some(Box::new(a.clone())));
                        out.push(Rx::Star(Box::new(p.clone())));
                        out.push(Rx::Plus(Box::new(p)));
                    }
                }
            }
        } else {
            let lower = self.lower(level);
            out.extend(self.get(l, u, lower).iter().cloned());
            out.extend(self.multi(l, u, level).iter().cloned());
        }
        let rc = std::rc::Rc::new(out);
        self.memo.insert((l, u, level), rc.clone());
        rc
    }
    fn lower(&self, level: u8) -> u8 {
        if level == 0 && !self.cfg.choice {
            2
        } else {
            level + 1
        }
    }
    /// shapes whose top node is the multi-operand operator of `level` (0 `|`, 1 `/`, 2 concatenation)
    pub fn multi(&mut self, l: usize, u: usize, level: u8) -> std::rc::Rc<Vec<Rx>> {
        if let Some(v) = self.memo.get(&(l, u, level + 10)) {
            return v.clone();
        }
        let mut out = vec![];
        let lower = self.lower(level);
        for k in 2..=l {
            for ls in compositions(l, k, 1) {
                for us in compositions(u, k, 0) {
                    let parts: Vec<std::rc::Rc<Vec<Rx>>> = ls
                        .iter()
                        .zip(us.iter())
                        .map(|(l, u)| self.get(*l, *u, lower))
                        .collect();
                    if parts.iter().any(|p| p.is_empty()) {
                        continue;
                    }
                    let mut idx = vec![0usize; k];
                    'prod: loop {
                        let ops: Vec<Rx> = (0..k).map(|i| parts[i][idx[i]].clone()).collect();
                        out.push(match level {
                            0 => Rx::Alt(ops),
                            1 => Rx::Choice(ops),
                            _ => Rx::Concat(ops),
                        });
                        let mut i = k;
                        loop {
                            if i == 0 {
                                break 'prod;
                            }
                            i -= 1;
                            idx[i] += 1;
                            if idx[i] < parts[i].len() {
                                break;
                            }
                            idx[i] = 0;
                        }
                    }
                }
            }
        }
        let rc = std::rc::Rc::new(out);
        self.memo.insert((l, u, level + 10), rc.clone());
        rc
    }
}

/// Fills the holes of `shape` (DFS order) from `labels`.
pub fn fill(shape: &Rx, labels: &mut dyn Iterator<Item = Rx>) -> Rx {
    match shape {
        Rx::Tok(HOLE) => labels.next().unwrap(),
        Rx::Concat(v) => Rx::Concat(v.iter().map(|x| fill(x, labels)).collect()),
        Rx::Alt(v) => Rx::Alt(v.iter().map(|x| fill(x, labels)).collect()),
        Rx::Choice(v) => Rx::Choice(v.iter().map(|x| fill(x, labels)).collect()),
        Rx::Star(x) => Rx::Star(Box::new(fill(x, labels))),
        Rx::Plus(x) => Rx::Plus(Box::new(fill(x, labels))),
        Rx::Opt(x) => Rx::Opt(Box::new(fill(x, labels))),
        Rx::Paren(Some(x)) => Rx::Paren(Some(Box::new(fill(x, labels)))),
        other => other.clone(),
    }
}

#[derive(Clone, Copy, Debug)]
pub struct EbnfBound {
    pub leaves: usize,
    pub unary: usize,
    pub max_rules: usize,
    pub max_tokens: usize,
    pub cfg: ShapeCfg,
}

/// One unit of work of the EBNF family: number of rules, leaf and unary budgets per rule and the index of
/// the start rule's shape. Units are independent and can be processed in parallel.
#[derive(Clone, Debug)]
pub struct EbnfUnit {
    pub ls: Vec<usize>,
    pub us: Vec<usize>,
    pub s_shape: usize,
    /// shape index of the second rule (when there is one): finer work units
    pub x_shape: usize,
}

pub fn ebnf_units(b: &EbnfBound) -> Vec<EbnfUnit> {
    let mut shapes = Shapes::new(b.cfg);
    let mut units = vec![];
    for total_l in 1..=b.leaves {
        for k in 1..=b.max_rules.min(total_l) {
            for ls in compositions(total_l, k, 1) {
                for total_u in 0..=b.unary {
                    for us in compositions(total_u, k, 0) {
                        let n = shapes.get(ls[0], us[0], 0).len();
                        let nx = if k >= 2 {
                            shapes.get(ls[1], us[1], 0).len()
                        } else {
                            1
                        };
                        for s in 0..n {
                            for x in 0..nx {
                                units.push(EbnfUnit {
                                    ls: ls.clone(),
                                    us: us.clone(),
                                    s_shape: s,
                                    x_shape: x,
                                });
                            }
                        }
                    }
                }
            }
        }
    }
    units
}

/// Enumerates every grammar of a unit: all shapes of the non-start rules, all leaf labelings with tokens in
/// first-occurrence order (symmetry reduction) and rule references (to non-start rules, self-reference
/// included) in first-occurrence order, every rule referenced from some other reachable rule.
pub fn ebnf_for_each(b: &EbnfBound, unit: &EbnfUnit, shapes: &mut Shapes, f: &mut dyn FnMut(&Grammar)) {
    let k = unit.ls.len();
    let per_rule: Vec<std::rc::Rc<Vec<Rx>>> = (0..k)
        .map(|i| shapes.get(unit.ls[i], unit.us[i], 0))
        .collect();
    if per_rule.iter().any(|p| p.is_empty()) {
        return;
    }
    let total_leaves: usize = unit.ls.iter().sum();
    let mut idx = vec![0usize; k];
    idx[0] = unit.s_shape;
    if k >= 2 {
        idx[1] = unit.x_shape;
    }
    loop {
        let bodies: Vec<&Rx> = (0..k).map(|i| &per_rule[i][idx[i]]).collect();
        // labelings
        let mut labels: Vec<Rx> = Vec::with_capacity(total_leaves);
        label_rec(b, k, total_leaves, &mut labels, 0, 0, &bodies, &unit.ls, f);
        // next combination of non-start shapes
        let mut i = k;
        let mut done = true;
        while i > 2 {
            i -= 1;
            idx[i] += 1;
            if idx[i] < per_rule[i].len() {
                done = false;
                break;
            }
            idx[i] = 0;
        }
        if done {
            break;
        }
    }
}

#[allow(clippy::too_many_arguments)]
fn label_rec(
    b: &EbnfBound,
    k: usize,
    total: usize,
    labels: &mut Vec<Rx>,
    max_tok: usize,
    max_ref: usize,
    bodies: &[&Rx],
    ls: &[usize],
    f: &mut dyn FnMut(&Grammar),
) {
    if labels.len() == total {
        if max_ref != k - 1 {
            return; // some rule never referenced
        }
        let mut it = labels.iter().cloned();
        let rules: Vec<Option<Rx>> = bodies.iter().map(|s| Some(fill(s, &mut it))).collect();
        let g = Grammar::simple(max_tok.max(1), rules);
        // a grammar without any token leaf still declares token A (unused) - skip those with no token at all
        if max_tok == 0 {
            return;
        }
        if !g.reachable().iter().all(|x| *x) {
            return;
        }
        f(&g);
        return;
    }
    let _ = ls;
    for t in 0..=max_tok.min(b.max_tokens - 1) {
        labels.push(Rx::Tok(t));
        label_rec(b, k, total, labels, max_tok.max(t + 1), max_ref, bodies, ls, f);
        labels.pop();
    }
    for r in 1..=(max_ref + 1).min(k - 1) {
        labels.push(Rx::Ref(r));
        label_rec(b, k, total, labels, max_tok, max_ref.max(r), bodies, ls, f);
        labels.pop();
    }
}

/// Convenience: run `f` over the whole family sequentially.
pub fn ebnf_all(b: &EbnfBound, f: &mut dyn FnMut(&Grammar)) {
    let mut shapes = Shapes::new(b.cfg);
    for u in ebnf_units(b) {
        ebnf_for_each(b, &u, &mut shapes, f);
    }
}

// ---------------------------------------------------------------------------------------------
// Operator insertion: every placement of <= k zero-width operators into the gaps of concatenations.

/// All grammars obtained from `base` by inserting exactly one operator from `ops` at one gap.
/// A gap is a position 0..=len in a sequence context: the rule body, an alternation / choice branch, the
/// inside of parentheses or brackets. A single element is treated as a one-element sequence (and becomes a
/// Concat when something is inserted). The operand of `*`/`+` is left alone unless it is a Paren.
pub fn insert_one(base: &Grammar, ops: &[Rx]) -> Vec<Grammar> {
    let mut out = vec![];
    for (ri, rule) in base.rules.iter().enumerate() {
        let Some(body) = &rule.body else { continue };
        let mut variants = vec![];
        seq_variants(body, ops, &mut variants);
        for v in variants {
            let mut g = base.clone();
            g.rules[ri].body = Some(v);
            out.push(g);
        }
    }
    out
}

fn seq_variants(r: &Rx, ops: &[Rx], out: &mut Vec<Rx>) {
    // `r` is in a sequence context
    match r {
        Rx::Alt(v) | Rx::Choice(v) => {
            for (i, b) in v.iter().enumerate() {
                let mut sub = vec![];
                seq_variants(b, ops, &mut sub);
                for s in sub {
                    let mut nv = v.clone();
                    nv[i] = s;
                    out.push(if matches!(r, Rx::Alt(_)) {
                        Rx::Alt(nv)
                    } else {
                        Rx::Choice(nv)
                    });
                }
            }
        }
        Rx::Concat(v) => {
            for pos in 0..=v.len() {
                for op in ops {
                    let mut nv = v.clone();
                    nv.insert(pos, op.clone());
                    out.push(Rx::Concat(nv));
                }
            }
            for (i, e) in v.iter().enumerate() {
                let mut sub = vec![];
                elem_variants(e, ops, &mut sub);
                for s in sub {
                    let mut nv = v.clone();
                    nv[i] = s;
                    out.push(Rx::Concat(nv));
                }
            }
        }
        single => {
            for op in ops {
                out.push(Rx::Concat(vec![op.clone(), single.clone()]));
                out.push(Rx::Concat(vec![single.clone(), op.clone()]));
            }
            elem_variants(single, ops, out);
        }
    }
}

fn elem_variants(e: &Rx, ops: &[Rx], out: &mut Vec<Rx>) {
    // `e` is an element of a sequence: descend into nested sequence contexts
    match e {
        Rx::Paren(Some(x)) => {
            let mut sub = vec![];
            seq_variants(x, ops, &mut sub);
            out.extend(sub.into_iter().map(|s| Rx::Paren(Some(Box::new(s)))));
        }
        Rx::Opt(x) => {
            let mut sub = vec![];
            seq_variants(x, ops, &mut sub);
            out.extend(sub.into_iter().map(|s| Rx::Opt(Box::new(s))));
        }
        Rx::Star(x) | Rx::Plus(x) => {
            let mut sub = vec![];
            elem_variants(x, ops, &mut sub);
            if !matches!(x.as_ref(), Rx::Paren(_)) {
                // `B*` -> `(op B)*` and `(B op)*`: operators at the start and end of a loop body
                for op in ops {
                    sub.push(par(cat(vec![op.clone(), x.as_ref().clone()])));
                    sub.push(par(cat(vec![x.as_ref().clone(), op.clone()])));
                }
            }
            let star = matches!(e, Rx::Star(_));
            out.extend(sub.into_iter().map(|s| {
                if star {
                    Rx::Star(Box::new(s))
                } else {
                    Rx::Plus(Box::new(s))
                }
            }));
        }
        _ => {}
    }
}

/// All grammars with between 0 and k insertions (deduplicated).
pub fn insert_up_to(base: &Grammar, ops: &[Rx], k: usize) -> Vec<Grammar> {
    let mut all = vec![base.clone()];
    let mut seen: std::collections::HashSet<Grammar> = all.iter().cloned().collect();
    let mut frontier = vec![base.clone()];
    for _ in 0..k {
        let mut next = vec![];
        for g in &frontier {
            for v in insert_one(g, ops) {
                if seen.insert(v.clone()) {
                    next.push(v.clone());
                    all.push(v);
                }
            }
        }
        frontier = next;
    }
    all
}

// ---------------------------------------------------------------------------------------------
// Helpers to build grammars by hand

pub fn tok(i: usize) -> Rx {
    Rx::Tok(i)
}
pub fn rf(i: usize) -> Rx {
    Rx::Ref(i)
}
pub fn cat(v: Vec<Rx>) -> Rx {
    Rx::Concat(v)
}
pub fn alt(v: Vec<Rx>) -> Rx {
    Rx::Alt(v)
}
pub fn cho(v: Vec<Rx>) -> Rx {
    Rx::Choice(v)
}
pub fn star(x: Rx) -> Rx {
    Rx::Star(Box::new(x))
}
pub fn plus(x: Rx) -> Rx {
    Rx::Plus(Box::new(x))
}
pub fn opt(x: Rx) -> Rx {
    Rx::Opt(Box::new(x))
}
pub fn par(x: Rx) -> Rx {
    Rx::Paren(Some(Box::new(x)))
}

pub fn grammar(ntok: usize, rules: Vec<(&str, bool, Option<Rx>)>) -> Grammar {
    Grammar {
        tokens: (0..ntok)
            .map(|i| TokenDef {
                name: TOKEN_NAMES[i].to_string(),
                symbol: None,
            })
            .collect(),
        skip: vec![],
        right: vec![],
        start: 0,
        parts: vec![],
        rules: rules
            .into_iter()
            .map(|(n, e, b)| RuleDef {
                name: n.to_string(),
                elided: e,
                body: b,
            })
            .collect(),
    }
}

pub fn rule_name(i: usize) -> &'static str {
    RULE_NAMES[i]
}

// ---------------------------------------------------------------------------------------------
// PRATT family

#[derive(Clone, Copy, Debug, PartialEq, Eq)]
pub enum BranchShape {
    Infix,
    InfixPair,
    Prefix,
    Postfix,
    Ternary,
    Call,
    PrefixTernary,
}

/// Tokens: 0 = A (atom), 1.. = operator tokens (B, C, D), then L, R.
/// Every list of 1..=b recursive branches x operator assignment x subset of operator tokens declared
/// `right` x atom set {A} / {A, L e R}. Rule 0 `s: e;` rule 1 `e`.
pub fn pratt_family(b: usize, optoks: usize, f: &mut dyn FnMut(&Grammar)) {
    pratt_family_atoms(b, optoks, &[0, 1], f)
}

/// `atom_variants`: 0 = atoms {A}, 1 = atoms {A, L e R}
pub fn pratt_family_atoms(b: usize, optoks: usize, atom_variants: &[usize], f: &mut dyn FnMut(&Grammar)) {
    let ops: Vec<usize> = (1..=optoks).collect();
    let l = optoks + 1;
    let r = optoks + 2;
    let e = || Rx::Ref(1);
    // all single branches
    let mut branches: Vec<Rx> = vec![];
    for &o in &ops {
        branches.push(cat(vec![e(), tok(o), e()]));
    }
    for i in 0..ops.len() {
        for j in i + 1..ops.len() {
            branches.push(cat(vec![e(), par(alt(vec![tok(ops[i]), tok(ops[j])])), e()]));
        }
    }
    for &o in &ops {
        branches.push(cat(vec![tok(o), e()]));
    }
    for &o in &ops {
        branches.push(cat(vec![e(), tok(o)]));
    }
    for &o in &ops {
        for &p in &ops {
            if o != p {
                branches.push(cat(vec![e(), tok(o), e(), tok(p), e()]));
            }
        }
    }
    branches.push(cat(vec![e(), tok(l), e(), tok(r)]));
    for &o in &ops {
        for &p in &ops {
            if o != p {
                branches.push(cat(vec![tok(o), e(), tok(p), e()]));
            }
        }
    }
    let nb = branches.len();
    let mut idx: Vec<usize> = vec![];
    fn rec(
        depth: usize,
        b: usize,
        nb: usize,
        idx: &mut Vec<usize>,
        branches: &[Rx],
        optoks: usize,
        l: usize,
        r: usize,
        atom_variants: &[usize],
        f: &mut dyn FnMut(&Grammar),
    ) {
        if !idx.is_empty() {
            for &atoms in atom_variants {
                let mut alts: Vec<Rx> = idx.iter().map(|i| branches[*i].clone()).collect();
                alts.push(tok(0));
                if atoms == 1 {
                    alts.push(cat(vec![tok(l), Rx::Ref(1), tok(r)]));
                }
                for mask in 0..(1u32 << optoks) {
                    // only tokens that occur
                    let used: Vec<usize> = (1..=optoks)
                        .filter(|t| alts.iter().any(|a| a.contains(&|x| *x == Rx::Tok(*t))))
                        .collect();
                    let right: Vec<usize> = (1..=optoks).filter(|t| mask & (1 << (t - 1)) != 0).collect();
                    if right.iter().any(|t| !used.contains(t)) {
                        continue;
                    }
                    let mut g = grammar(
                        optoks + 3,
                        vec![("s", false, Some(Rx::Ref(1))), ("e", false, Some(alt(alts.clone())))],
                    );
                    g.tokens[l].name = "L".into();
                    g.tokens[r].name = "R".into();
                    g.right = right;
                    f(&g);
                }
            }
        }
        if depth == b {
            return;
        }
        for i in 0..nb {
            idx.push(i);
            rec(depth + 1, b, nb, idx, branches, optoks, l, r, atom_variants, f);
            idx.pop();
        }
    }
    rec(0, b, nb, &mut idx, &branches, optoks, l, r, atom_variants, f);
}

// ---------------------------------------------------------------------------------------------
// NODE / PRED / CHOICE / PARTS families

pub fn node_bases() -> Vec<Grammar> {
    vec![
        grammar(3, vec![("s", false, Some(cat(vec![tok(0), rf(1), tok(2)]))), ("x", false, Some(tok(1)))]),
        grammar(3, vec![("s", false, Some(rf(1))), ("x", false, Some(cat(vec![tok(0), tok(1), tok(2)])))]),
        grammar(3, vec![("s", false, Some(rf(1))), ("x", false, Some(alt(vec![tok(0), cat(vec![tok(1), tok(2)])])))]),
        grammar(3, vec![("s", false, Some(rf(1))), ("x", false, Some(cat(vec![tok(0), opt(tok(1)), tok(2)])))]),
        grammar(3, vec![("s", false, Some(rf(1))), ("x", false, Some(cat(vec![tok(0), star(tok(1)), tok(2)])))]),
        grammar(3, vec![("s", false, Some(star(rf(1)))), ("x", false, Some(cat(vec![tok(0), par(alt(vec![tok(1), tok(2)]))])))]),
        grammar(2, vec![("s", false, Some(rf(1))), ("e", false, Some(alt(vec![cat(vec![rf(1), tok(1), rf(1)]), tok(0)])))]),
        grammar(3, vec![("s", false, Some(cat(vec![rf(1), tok(2)]))), ("x", false, Some(alt(vec![cat(vec![tok(0), rf(1)]), tok(1)])))]),
        // two left-recursive branches: an operator placed in one of them must not affect the other
        grammar(
            3,
            vec![
                ("s", false, Some(rf(1))),
                ("e", false, Some(alt(vec![cat(vec![rf(1), tok(1), rf(1)]), cat(vec![rf(1), tok(2), rf(1)]), tok(0)]))),
            ],
        ),
    ]
}

pub fn node_ops() -> Vec<Rx> {
    vec![
        Rx::Rename("n".into()),
        Rx::Elide,
        Rx::Marker(1),
        Rx::Marker(2),
        Rx::Create(Some(1), Some("n".into())),
        Rx::Create(Some(1), None),
        Rx::Create(Some(2), Some("m".into())),
        Rx::Create(None, Some("n".into())),
        Rx::Create(None, None),
    ]
}

/// NODE(k): every placement of <= k node operators into the gaps of the base bodies, each also with the
/// non-start rule declared elided (`x^:`).
pub fn node_family(k: usize, bases: &[Grammar]) -> Vec<Grammar> {
    let mut out = vec![];
    for b in bases {
        for g in insert_up_to(b, &node_ops(), k) {
            let mut e = g.clone();
            e.rules[1].elided = true;
            out.push(g);
            out.push(e);
        }
    }
    out
}

pub fn pred_ops() -> Vec<Rx> {
    vec![Rx::Pred(Some(1)), Rx::Pred(None), Rx::Assert(1), Rx::Action(1)]
}

/// PRED: EBNF(l,u,rules) x every placement of <= k items of {?1, ?t, !1, #1}
pub fn pred_family(b: &EbnfBound, k: usize) -> Vec<Grammar> {
    let mut out = vec![];
    ebnf_all(b, &mut |g| {
        if g.fully_productive() {
            for v in insert_up_to(g, &pred_ops(), k) {
                if v != *g {
                    out.push(v);
                }
            }
        }
    });
    out
}

/// CHOICE: EBNF shapes with ordered choice enabled that contain exactly one ordered choice, plus every
/// placement of <= k items of {~, &, !1}
pub fn choice_family(b: &EbnfBound, k: usize) -> Vec<Grammar> {
    choice_family_ops(b, k, &[Rx::Commit, Rx::Return, Rx::Assert(1)])
}

pub fn choice_family_ops(b: &EbnfBound, k: usize, ops: &[Rx]) -> Vec<Grammar> {
    let mut out = vec![];
    let mut bb = *b;
    bb.cfg.choice = true;
    ebnf_all(&bb, &mut |g| {
        let mut n = 0;
        g.walk_all(&mut |_, r| {
            if matches!(r, Rx::Choice(_)) {
                n += 1
            }
        });
        if n == 1 && g.fully_productive() {
            out.extend(insert_up_to(g, ops, k));
        }
    });
    out
}

/// PARTS: EBNF grammars with 2..3 rules; every non-empty subset of the non-start rules declared `part`;
/// additionally variants in which the start rule does not reference the part (unused part).
pub fn parts_family(b: &EbnfBound) -> Vec<Grammar> {
    let mut out = vec![];
    ebnf_all(b, &mut |g| {
        if g.rules.len() < 2 || !g.fully_productive() {
            return;
        }
        let n = g.rules.len() - 1;
        for mask in 1..(1u32 << n) {
            let mut v = g.clone();
            v.parts = (1..=n).filter(|i| mask & (1 << (i - 1)) != 0).collect();
            out.push(v);
        }
    });
    out
}

/// MARKERS: two marker/creation pairs `<1 .. 1>p`, `<2 .. 2>q` placed in every way into the gaps of a
/// four-element sequence (each marker before its creation), including crossing pairs. Base 0: `x: A B C A`;
/// base 1: `x: A y C A; y: B` (a rule node between the markers).
pub fn markers_family(bases: &[usize]) -> Vec<Grammar> {
    let ops = [
        Rx::Marker(1),
        Rx::Create(Some(1), Some("p".into())),
        Rx::Marker(2),
        Rx::Create(Some(2), Some("q".into())),
    ];
    // orders of the four operators with each marker before its creation
    let mut orders: Vec<Vec<usize>> = vec![];
    let idx = [0usize, 1, 2, 3];
    fn perms(cur: &mut Vec<usize>, rest: &[usize], out: &mut Vec<Vec<usize>>) {
        if rest.is_empty() {
            out.push(cur.clone());
            return;
        }
        for i in 0..rest.len() {
            let mut r = rest.to_vec();
            let x = r.remove(i);
            cur.push(x);
            perms(cur, &r, out);
            cur.pop();
        }
    }
    perms(&mut vec![], &idx, &mut orders);
    orders.retain(|o| {
        let pos = |x: usize| o.iter().position(|y| *y == x).unwrap();
        pos(0) < pos(1) && pos(2) < pos(3)
    });
    let mut out = vec![];
    for &base in bases {
        let elems: Vec<Rx> = if base == 0 {
            vec![tok(0), tok(1), tok(2), tok(0)]
        } else {
            vec![tok(0), rf(2), tok(2), tok(0)]
        };
        let n = elems.len();
        for order in &orders {
            // non-decreasing gap sequence g0<=g1<=g2<=g3 in 0..=n
            for g0 in 0..=n {
                for g1 in g0..=n {
                    for g2 in g1..=n {
                        for g3 in g2..=n {
                            let gaps = [g0, g1, g2, g3];
                            let mut body = vec![];
                            for pos in 0..=n {
                                for (k, o) in order.iter().enumerate() {
                                    if gaps[k] == pos {
                                        body.push(ops[*o].clone());
                                    }
                                }
                                if pos < n {
                                    body.push(elems[pos].clone());
                                }
                            }
                            let mut rules = vec![("s", false, Some(rf(1))), ("x", false, Some(cat(body)))];
                            if base == 1 {
                                rules.push(("y", false, Some(tok(1))));
                            }
                            out.push(grammar(3, rules));
                        }
                    }
                }
            }
        }
    }
    out
}

/// CHOICE-TAIL: an ordered choice at the end of a non-start rule whose first alternative can fail after a
/// partial match and whose last alternative is nullable, in three contexts. (Backtracking directly before a
/// rule closes: the trailing-trivia bookkeeping restored by the truncation decides where the node ends.)
pub fn choice_tail_family() -> Vec<Grammar> {
    let firsts = [
        cat(vec![tok(1), tok(2)]),
        cat(vec![tok(1), tok(1)]),
        cat(vec![tok(1), tok(2), tok(2)]),
        cat(vec![tok(1), rf(2)]),
    ];
    let lasts = [opt(tok(1)), star(tok(1)), opt(tok(2)), opt(cat(vec![tok(1), tok(0)])), Rx::Paren(None)];
    let mut out = vec![];
    // an option / loop followed by a mandatory element inside the first alternative, a last alternative that
    // does not start with the same token, and a rule that continues after the choice
    for first in [
        cat(vec![tok(0), opt(tok(1)), tok(0)]),
        cat(vec![tok(0), star(tok(1)), tok(0)]),
        cat(vec![tok(0), opt(tok(1)), tok(2)]),
        cat(vec![tok(0), plus(tok(1)), tok(0)]),
    ] {
        for last in [tok(1), tok(2), cat(vec![tok(1), tok(2)])] {
            for s in [cat(vec![rf(1), tok(2)]), cat(vec![rf(1), tok(0)]), star(par(cat(vec![rf(1), tok(2)])))] {
                out.push(grammar(
                    3,
                    vec![("s", false, Some(s.clone())), ("x", false, Some(cho(vec![first.clone(), last.clone()])))],
                ));
            }
        }
    }
    // markers and creations around an ordered choice: a creation inside an attempt must not reach in front of it
    {
        let n = || Some("n".to_string());
        let bodies: Vec<(bool, Rx)> = vec![
            (false, cat(vec![Rx::Marker(1), tok(0), par(cho(vec![cat(vec![tok(1), Rx::Create(Some(1), n()), tok(2)]), tok(1)]))])),
            (false, cat(vec![tok(0), par(cho(vec![cat(vec![Rx::Marker(1), tok(1), Rx::Create(Some(1), n()), tok(2)]), tok(1)]))])),
            (false, cat(vec![Rx::Marker(1), tok(0), par(cho(vec![cat(vec![tok(1), Rx::Commit, Rx::Create(Some(1), n()), tok(2)]), tok(1)]))])),
            (false, cat(vec![Rx::Marker(1), tok(0), par(cho(vec![cat(vec![tok(1), tok(2)]), cat(vec![tok(1), Rx::Create(Some(1), n())])]))])),
            (true, cat(vec![tok(0), par(cho(vec![cat(vec![tok(1), Rx::Create(None, n()), tok(2)]), tok(1)]))])),
            (true, cat(vec![tok(0), par(cho(vec![cat(vec![tok(1), Rx::Commit, Rx::Create(None, n()), tok(2)]), tok(1)]))])),
        ];
        for (elided, body) in bodies {
            let mut g = grammar(3, vec![("s", false, Some(cat(vec![rf(1), tok(1)]))), ("x", elided, Some(body))]);
            out.push(g.clone());
            g.rules[0].body = Some(rf(1));
            out.push(g);
        }
        // whole-rule creation in a rule that is called from inside an attempt
        out.push(grammar(
            3,
            vec![
                ("s", false, Some(rf(1))),
                ("x", false, Some(cat(vec![tok(0), par(cho(vec![rf(2), tok(1)]))]))),
                ("y", true, Some(cat(vec![tok(1), Rx::Create(None, n()), tok(2)]))),
            ],
        ));
    }
    for f in &firsts {
        for l in &lasts {
            for ctx in 0..4 {
                let choice = par(cho(vec![f.clone(), l.clone()]));
                let s = match ctx {
                    0 => rf(1),
                    1 => cat(vec![rf(1), tok(2)]),
                    // the token that starts the first alternative may also follow the rule: the nullable last
                    // alternative is then entered and matches nothing
                    2 => cat(vec![rf(1), tok(1)]),
                    _ => star(rf(1)),
                };
                let mut rules = vec![("s", false, Some(s)), ("x", false, Some(cat(vec![tok(0), choice])))];
                if f.contains(&|r| matches!(r, Rx::Ref(2))) {
                    rules.push(("y", false, Some(cat(vec![tok(2), tok(2)]))));
                } else {
                    // keep rule indices stable: no third rule
                }
                out.push(grammar(3, rules));
            }
        }
    }
    out
}

/// REC: recursive rules whose loops / options never end a sentence (a terminator follows), so that input
/// truncated inside the loop reaches the end of input in the middle of a repetition of a recursive rule.
pub fn rec_family() -> Vec<Grammar> {
    let x = || rf(1);
    vec![
        grammar(2, vec![("s", false, Some(x())), ("x", false, Some(cat(vec![tok(0), star(x()), tok(1)])))]),
        grammar(3, vec![("s", false, Some(cat(vec![x(), tok(2)]))), ("x", false, Some(cat(vec![tok(0), star(x()), tok(1)])))]),
        grammar(2, vec![("s", false, Some(x())), ("x", false, Some(cat(vec![tok(0), opt(x()), tok(1)])))]),
        grammar(3, vec![("s", false, Some(x())), ("x", false, Some(alt(vec![cat(vec![tok(0), plus(x()), tok(1)]), tok(2)])))]),
        grammar(3, vec![("s", false, Some(star(par(cat(vec![x(), tok(2)]))))), ("x", false, Some(cat(vec![tok(0), star(x()), tok(1)])))]),
        grammar(
            3,
            vec![
                ("s", false, Some(cat(vec![star(par(cat(vec![x(), tok(2)]))), tok(1)]))),
                ("x", false, Some(cat(vec![tok(0), star(rf(2)), tok(1)]))),
                ("y", false, Some(alt(vec![tok(2), x()]))),
            ],
        ),
    ]
}

/// SHARED-PART: a rule with a loop / option that is used both by the start rule and by a part rule, so that the
/// part's end marker reaches the loop only through the follow set of the start rule.
pub fn shared_part_family() -> Vec<Grammar> {
    let mut out = vec![];
    let loops = [star(tok(0)), plus(tok(0)), opt(tok(0)), star(par(cat(vec![tok(0), tok(1)])))];
    for l in &loops {
        for xbody in [
            cat(vec![l.clone(), tok(3)]),
            cat(vec![tok(3), l.clone(), tok(3)]),
            cat(vec![tok(3), l.clone()]),
        ] {
            for s in [cat(vec![rf(2), tok(2)]), star(par(cat(vec![rf(2), tok(2)]))), rf(2)] {
                for p in [cat(vec![rf(2), tok(1)]), rf(2), cat(vec![tok(2), rf(2)])] {
                    let mut g = grammar(
                        4,
                        vec![("s", false, Some(s.clone())), ("p", false, Some(p.clone())), ("x", false, Some(xbody.clone()))],
                    );
                    g.parts = vec![1];
                    out.push(g);
                }
            }
        }
    }
    out
}
