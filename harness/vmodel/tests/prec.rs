use vmodel::arena::Arena;
use vmodel::bnf::{Bnf, Sets};
use vmodel::interp::{Deriv, Prec};

#[test]
fn double_right() {
    let g = vmodel::sexp::from_sexp("(g (tok A B C L R W) (skip 5) (right 1 2) (start 0) (parts) (rule s r1) (rule e (alt (cat r1 (par (alt t1 t2)) r1) (cat t1 r1) t0)))");
    let a = Arena::build(&g);
    let bnf = Bnf::build(&g, &a);
    let sets = Sets::compute(&bnf);
    let prec = Prec::new(&g, &a, &sets);
    println!("{:?}", prec.rec);
    let input = vec![0usize, 1, 0, 2, 0];
    let mut dv = Deriv::new(&g, &a, &input);
    let all = dv.rule(0, 0, 5);
    println!("derivs {}", all.len());
    let ok: Vec<_> = all.iter().filter(|d| prec.ok(d)).collect();
    println!("survivors {}", ok.len());
    assert_eq!(ok.len(), 1);
}
