//! Per-grammar exploration inside a compiled batch: every input up to the bound, every answer script within
//! the deviation bound, every entry point; oracles per requested property. One JSON line per grammar.

use crate::oracle::{self, Viol};
use crate::{json_str, Obs, Script, Subject};
use std::collections::{BTreeMap, HashSet};
use std::io::Write;
use vmodel::arena::Arena;
use vmodel::bnf::{Bnf, Sets};
use vmodel::earley::Earley;
use vmodel::interp::{Deriv, Mode, Prec, Pred, TreeBuilder, D};
use vmodel::{Grammar, Rx};

pub struct Job {
    pub sexp: &'static str,
    pub subject: &'static dyn Subject,
}

#[derive(Clone, Debug)]
pub struct Opts {
    pub props: Vec<String>,
    /// inputs over tokens + trivia up to this length (invariant properties)
    pub len_full: usize,
    /// inputs over tokens only up to this length (C04 C06 ...)
    pub len: usize,
    /// base inputs for trivia insertion (C16)
    pub len_trivia: usize,
    /// answer-script deviation bound
    pub dev: usize,
    pub trace: bool,
    pub only: Option<usize>,
    pub from: usize,
    /// engine C: explore tree-builder histories to this depth on the first job instead of parsing inputs
    pub history: Option<usize>,
}

impl Opts {
    pub fn from_args() -> Opts {
        let args: Vec<String> = std::env::args().collect();
        let get = |k: &str| -> Option<String> {
            args.iter()
                .position(|a| a == k)
                .and_then(|i| args.get(i + 1).cloned())
        };
        Opts {
            props: get("--props")
                .map(|s| s.split(',').map(|x| x.to_string()).collect())
                .unwrap_or_default(),
            len_full: get("--len-full").and_then(|s| s.parse().ok()).unwrap_or(4),
            len: get("--len").and_then(|s| s.parse().ok()).unwrap_or(5),
            len_trivia: get("--len-trivia").and_then(|s| s.parse().ok()).unwrap_or(4),
            dev: get("--dev").and_then(|s| s.parse().ok()).unwrap_or(1),
            trace: args.iter().any(|a| a == "--trace"),
            only: get("--only").and_then(|s| s.parse().ok()),
            from: get("--from").and_then(|s| s.parse().ok()).unwrap_or(0),
            history: get("--history").and_then(|s| s.parse().ok()),
        }
    }
    fn has(&self, p: &str) -> bool {
        self.props.iter().any(|x| x == p)
    }
}

pub struct Model {
    pub g: Grammar,
    pub arena: Arena,
    pub bnf: Bnf,
    pub sets: Sets,
    pub has_pred: bool,
    pub has_true_pred: bool,
    pub has_assert: bool,
    pub has_choice: bool,
    pub has_action: bool,
    /// R-CONF finds an LL(1) conflict (cascade rule: semantic oracles are then C10's business)
    pub conflicts: usize,
}

impl Model {
    pub fn new(g: Grammar) -> Model {
        let arena = Arena::build(&g);
        let bnf = Bnf::build(&g, &arena);
        let sets = Sets::compute(&bnf);
        Model {
            has_pred: g.contains(&|r| matches!(r, Rx::Pred(Some(_)))),
            has_true_pred: g.contains(&|r| matches!(r, Rx::Pred(None))),
            has_assert: g.contains(&|r| matches!(r, Rx::Assert(_))),
            has_choice: g.contains(&|r| matches!(r, Rx::Choice(_))),
            has_action: g.contains(&|r| matches!(r, Rx::Action(_))),
            conflicts: vmodel::conf::conflicts(&g, &arena, &sets).len(),
            g,
            arena,
            bnf,
            sets,
        }
    }
}

#[derive(Default)]
struct Tally {
    execs: u64,
    nontrivial: BTreeMap<&'static str, u64>,
    evals: BTreeMap<&'static str, u64>,
    viol_count: BTreeMap<(&'static str, &'static str), u64>,
    viols: Vec<String>,
    outcomes: HashSet<u64>,
    panics: u64,
}

impl Tally {
    fn eval(&mut self, p: &'static str) {
        *self.evals.entry(p).or_insert(0) += 1;
    }
    fn nontrivial(&mut self, p: &'static str) {
        *self.nontrivial.entry(p).or_insert(0) += 1;
    }
    fn record(&mut self, vs: Vec<Viol>, entry: usize, input: &[u8], script: &Script, extra: &str) {
        for v in vs {
            let c = self.viol_count.entry((v.prop, v.clause)).or_insert(0);
            *c += 1;
            if *c <= 2 {
                self.viols.push(format!(
                    "{{\"prop\":{},\"clause\":{},\"entry\":{},\"input\":{},\"script\":{:?},\"detail\":{},\"extra\":{}}}",
                    json_str(v.prop),
                    json_str(v.clause),
                    entry,
                    json_str(&String::from_utf8_lossy(input)),
                    script.deviations,
                    json_str(&v.detail),
                    json_str(extra),
                ));
            }
        }
    }
    fn outcome(&mut self, obs: &Obs) {
        use std::hash::{Hash, Hasher};
        let mut h = std::collections::hash_map::DefaultHasher::new();
        for n in &obs.nodes {
            match n {
                crate::ONode::Rule(k, e) => (0u8, *k, *e).hash(&mut h),
                crate::ONode::Token(k, e) => (1u8, *k, *e).hash(&mut h),
            }
        }
        for d in &obs.diags {
            (d.0, d.1).hash(&mut h);
        }
        self.outcomes.insert(h.finish());
    }
}

/// all strings over `alphabet` of length 0..=max, shortest first
pub fn strings(alphabet: &[u8], max: usize) -> Vec<Vec<u8>> {
    let mut out = vec![vec![]];
    let mut start = 0;
    for _ in 0..max {
        let end = out.len();
        for i in start..end {
            for &a in alphabet {
                let mut s = out[i].clone();
                s.push(a);
                out.push(s);
            }
        }
        start = end;
    }
    out
}

struct Explorer<'a> {
    m: &'a Model,
    subject: &'a dyn Subject,
    opts: &'a Opts,
    /// token discriminant of model token i
    disc: Vec<u16>,
    err_disc: u16,
    skipped: Vec<bool>, // by discriminant
    tok_bytes: Vec<u8>,
    trivia_bytes: Vec<u8>,
    tally: Tally,
}

impl<'a> Explorer<'a> {
    fn new(m: &'a Model, subject: &'a dyn Subject, opts: &'a Opts) -> Self {
        let names = subject.token_names();
        let find = |n: &str| -> u16 {
            names
                .iter()
                .position(|x| *x == n)
                .unwrap_or_else(|| panic!("token {n} not in harness enum")) as u16
        };
        let disc: Vec<u16> = m.g.tokens.iter().map(|t| find(&t.name)).collect();
        let err_disc = find("Error");
        let mut skipped = vec![false; names.len()];
        skipped[err_disc as usize] = true;
        for s in &m.g.skip {
            skipped[disc[*s] as usize] = true;
        }
        let mut tok_bytes = vec![];
        let mut trivia_bytes = vec![];
        for i in 0..m.g.tokens.len() {
            if m.g.skip.contains(&i) {
                trivia_bytes.push(b'a' + i as u8);
            } else {
                tok_bytes.push(b'a' + i as u8);
            }
        }
        trivia_bytes.push(b'!');
        Explorer {
            m,
            subject,
            opts,
            disc,
            err_disc,
            skipped,
            tok_bytes,
            trivia_bytes,
            tally: Tally::default(),
        }
    }
    fn disc_of_byte(&self, b: u8) -> u16 {
        if b == b'!' {
            self.err_disc
        } else {
            self.disc[(b - b'a') as usize]
        }
    }
    fn is_trivia_byte(&self, b: u8) -> bool {
        self.trivia_bytes.contains(&b)
    }
    fn run(&mut self, entry: usize, input: &[u8], script: &Script) -> Obs {
        if self.opts.trace {
            println!(
                "TRACE entry={} input={} script={:?}",
                entry,
                String::from_utf8_lossy(input),
                script.deviations
            );
            std::io::stdout().flush().ok();
        }
        self.tally.execs += 1;
        let obs = self.subject.run(entry, input, script);
        if let Some(p) = &obs.panic {
            self.tally.panics += 1;
            let v = Viol {
                prop: "C03",
                clause: "panic",
                detail: format!("generated parser panicked: {p}"),
            };
            if self.opts.has("C03") {
                self.tally.record(vec![v], entry, input, script, "");
            }
        }
        obs
    }
    /// scripts with at most `dev` deviations, discovered depth first from the observed consultation counts
    fn for_scripts(&mut self, entry: usize, input: &[u8], f: &mut dyn FnMut(&mut Self, &Script, &Obs)) {
        let dev = if self.m.has_pred || self.m.has_assert {
            self.opts.dev
        } else {
            0
        };
        let mut stack: Vec<Script> = vec![Script::default()];
        while let Some(s) = stack.pop() {
            let obs = self.run(entry, input, &s);
            if s.deviations.len() < dev {
                let from = s.deviations.last().map_or(0, |x| x + 1);
                for i in (from..obs.consulted).rev() {
                    let mut d = s.deviations.clone();
                    d.push(i);
                    stack.push(Script { deviations: d });
                }
            }
            f(self, &s, &obs);
        }
    }
    fn terminals(&self, input: &[u8]) -> Vec<usize> {
        input.iter().map(|b| (*b - b'a') as usize).collect()
    }
    fn invariants(&mut self, entry: usize, input: &[u8], script: &Script, obs: &Obs) {
        if obs.panic.is_some() {
            return;
        }
        self.tally.outcome(obs);
        let o = self.opts;
        if o.has("C01") {
            self.tally.eval("C01");
            let expected: Vec<u16> = input.iter().map(|b| self.disc_of_byte(*b)).collect();
            let vs = oracle::c01_lossless(obs, &expected);
            if !obs.diags.is_empty() || input.iter().any(|b| self.is_trivia_byte(*b)) {
                self.tally.nontrivial("C01");
            }
            self.tally.record(vs, entry, input, script, "");
        }
        if o.has("C02") {
            self.tally.eval("C02");
            let sk = self.skipped.clone();
            let vs = oracle::c02_wellformed(obs, &|t| sk[t as usize]);
            if obs.nodes.len() > input.len() + 1 {
                self.tally.nontrivial("C02");
            }
            self.tally.record(vs, entry, input, script, "");
        }
        if o.has("C03") {
            self.tally.eval("C03");
            if !obs.diags.is_empty() {
                self.tally.nontrivial("C03");
            }
        }
    }
    fn explore(&mut self) {
        let o = self.opts.clone();
        let m = self.m;
        let entries = m.g.entries();
        let earley = Earley::new(&m.bnf, &m.sets.nullable);
        let want_inv = o.has("C01") || o.has("C02") || o.has("C03");
        let semantic_free = !m.has_pred && !m.has_assert;
        let conflict_free = m.conflicts == 0;
        let want_c04 = o.has("C04") && semantic_free && !m.has_choice && !m.has_true_pred && conflict_free;
        let want_c06 = o.has("C06") && semantic_free && !m.has_choice && !m.has_true_pred && conflict_free;
        let mut full_alpha = self.tok_bytes.clone();
        full_alpha.extend(self.trivia_bytes.iter().copied());
        let lang = if want_c04 || want_c06 {
            Some(vmodel::lang::Lang::compute(&m.g, &m.arena, o.len.min(4)))
        } else {
            None
        };
        for (ek, &erule) in entries.iter().enumerate() {
            let start_nt = m.bnf.rule_nt[erule];
            if want_inv {
                for input in strings(&full_alpha, o.len_full) {
                    self.for_scripts(ek, &input, &mut |me, s, obs| me.invariants(ek, &input, s, obs));
                }
            }
            if want_c04 || want_c06 || (want_inv && o.len > o.len_full) {
                for input in strings(&self.tok_bytes.clone(), o.len) {
                    if want_inv && input.len() <= o.len_full && !(want_c04 || want_c06) {
                        continue;
                    }
                    let script = Script::default();
                    let obs = self.run(ek, &input, &script);
                    if obs.panic.is_some() {
                        continue;
                    }
                    if want_inv && input.len() > o.len_full {
                        self.invariants(ek, &input, &script, &obs);
                    }
                    if want_c04 || want_c06 {
                        let rec = earley.recognise(start_nt, &self.terminals(&input));
                        // oracle cross-check: Earley membership = bounded-language membership (R-LANG)
                        if let Some(lang) = &lang {
                            if input.len() <= lang.max_len {
                                let s: Vec<u8> = self.terminals(&input).iter().map(|t| *t as u8).collect();
                                if lang.rule[erule].contains(&s) != rec.accepted {
                                    println!(
                                        "MACHINERY reference recognisers disagree on `{}` for job grammar {}",
                                        String::from_utf8_lossy(&input),
                                        vmodel::sexp::to_sexp(&m.g)
                                    );
                                }
                                self.tally.nontrivial("oracle_crosschecks");
                            }
                        }
                        if want_c04 {
                            self.tally.eval("C04");
                            if rec.accepted {
                                self.tally.nontrivial("C04");
                            }
                            let vs = oracle::c04_membership(&obs, rec.accepted);
                            self.tally.record(vs, ek, &input, &script, "");
                        }
                        if want_c06 {
                            self.tally.eval("C06");
                            if !rec.accepted {
                                self.tally.nontrivial("C06");
                            }
                            let vs = oracle::c06_positions(&obs, rec.accepted, rec.viable, input.len());
                            self.tally.record(vs, ek, &input, &script, "");
                        }
                        self.tally.outcome(&obs);
                    }
                }
            }
            if o.has("C16") {
                self.c16(ek);
            }
            let prec = Prec::new(&m.g, &m.arena, &m.sets);
            self.semantic(ek, &prec, &earley);
        }
    }
    /// Reference verdict for a trivia-free input under the default answer script: (accepted, derivation if
    /// uniquely determined). Uses R-PRED for grammars with ordered choice / predicates, otherwise Earley for
    /// membership and R-DERIV (+ R-PREC) for the derivation.
    fn reference(&mut self, ek: usize, input: &[u8], prec: &Prec<'_>, earley: &Earley<'_>) -> (Option<bool>, Option<D>) {
        let m = self.m;
        let erule = m.g.entries()[ek];
        let terms = self.terminals(input);
        let prioritised = m.has_choice || m.has_pred || m.has_true_pred || m.has_assert;
        if prioritised {
            if (0..m.g.rules.len()).any(|r| prec.is_pratt(r)) {
                return (None, None); // R-PRED does not interpret left recursion
            }
            let eof = m.bnf.eof[ek];
            let mut p = Pred::new(&m.g, &m.arena, &m.sets, &terms, eof, &[]);
            let d = p.parse(erule);
            if p.overflow {
                return (None, None);
            }
            let _ = Mode::Normal;
            (Some(d.is_some()), d)
        } else {
            let rec = earley.recognise(m.bnf.rule_nt[erule], &terms);
            if !rec.accepted {
                return (Some(false), None);
            }
            let mut dv = Deriv::new(&m.g, &m.arena, &terms);
            let all = dv.rule(erule, 0, terms.len());
            if dv.capped {
                return (Some(true), None);
            }
            let survivors: Vec<&D> = all.iter().filter(|d| prec.ok(d)).collect();
            if survivors.len() == 1 {
                (Some(true), Some(survivors[0].clone()))
            } else {
                (Some(true), None)
            }
        }
    }
    fn semantic(&mut self, ek: usize, prec: &Prec<'_>, earley: &Earley<'_>) {
        let o = self.opts.clone();
        let m = self.m;
        let want5 = o.has("C05");
        let want7 = o.has("C07") && (0..m.g.rules.len()).any(|r| prec.is_pratt(r));
        let want8 = o.has("C08") && m.has_choice;
        let want4p = o.has("C04") && !m.has_pred && !m.has_assert && (m.has_choice || m.has_true_pred);
        if !(want5 || want7 || want8 || want4p) || m.conflicts > 0 {
            if m.conflicts > 0 {
                self.tally.nontrivial("skipped_conflict_by_reference");
            }
            return;
        }
        let names_r = self.subject.rule_names();
        let names_t = self.subject.token_names();
        let empty_rule = m.g.rules.iter().any(|r| r.body.is_none());
        for input in strings(&self.tok_bytes.clone(), o.len) {
            let script = Script::default();
            let obs = self.run(ek, &input, &script);
            if obs.panic.is_some() {
                continue;
            }
            self.tally.outcome(&obs);
            let (acc, d) = self.reference(ek, &input, prec, earley);
            let Some(acc) = acc else {
                self.tally.nontrivial("undecided");
                continue;
            };
            if want4p {
                self.tally.eval("C04");
                if acc {
                    self.tally.nontrivial("C04");
                }
                self.tally.record(oracle::c04_membership(&obs, acc), ek, &input, &script, "prioritised reading");
            }
            if want8 {
                self.tally.eval("C08");
                let abandoned = obs.log.iter().any(|e| e.kind == crate::EvKind::Delete)
                    || input.len() > 0 && acc;
                if abandoned {
                    self.tally.nontrivial("C08");
                }
                let mut vs = oracle::c04_membership(&obs, acc);
                for x in vs.iter_mut() {
                    x.prop = "C08";
                }
                vs.extend(oracle::c08_callbacks(&obs, names_r));
                if !m.g.contains(&|r| matches!(r, Rx::Return)) {
                    vs.extend(oracle::c08_half_open(&obs, names_r));
                }
                self.tally.record(vs, ek, &input, &script, "");
            }
            if !acc {
                continue;
            }
            let Some(d) = d else {
                if want5 || want7 {
                    self.tally.nontrivial("undecided");
                }
                continue;
            };
            if (want5 && !empty_rule) || want7 || want8 {
                let terms = self.terminals(&input);
                let mut tb = TreeBuilder::new(&m.g, &m.arena, &terms);
                let et = tb.root(ek, &d);
                let mut expected = String::new();
                et.render(&m.g, &mut expected);
                let actions = tb.actions.clone();
                if want5 && !empty_rule {
                    self.tally.eval("C05");
                    if obs.nodes.iter().filter(|x| matches!(x, crate::ONode::Rule(..))).count() > 1 {
                        self.tally.nontrivial("C05");
                    }
                    let vs = oracle::c05_tree("C05", &obs, &expected, &actions, names_r, names_t);
                    self.tally.record(vs, ek, &input, &script, "");
                }
                if want7 {
                    self.tally.eval("C07");
                    if input.len() >= 3 {
                        self.tally.nontrivial("C07");
                    }
                    let vs = oracle::c05_tree("C07", &obs, &expected, &actions, names_r, names_t);
                    self.tally.record(vs, ek, &input, &script, "");
                }
                if want8 && !empty_rule {
                    let vs = oracle::c05_tree("C08", &obs, &expected, &actions, names_r, names_t);
                    self.tally.record(vs, ek, &input, &script, "");
                }
            }
        }
    }
    fn c16(&mut self, ek: usize) {
        let o = self.opts.clone();
        let names_r = self.subject.rule_names();
        let names_t = self.subject.token_names();
        let trivia = self.trivia_bytes.clone();
        let sk = self.skipped.clone();
        for w in strings(&self.tok_bytes.clone(), o.len_trivia) {
            let n = w.len();
            // all ways to insert 1 or 2 trivia items into the n+1 gaps
            let mut variants: Vec<Vec<u8>> = vec![];
            for g1 in 0..=n {
                for &t1 in &trivia {
                    let mut a = w.clone();
                    a.insert(g1, t1);
                    variants.push(a.clone());
                    for g2 in g1..=n {
                        for &t2 in &trivia {
                            let mut b = a.clone();
                            b.insert(g2 + 1, t2);
                            variants.push(b);
                        }
                    }
                }
            }
            variants.sort();
            variants.dedup();
            // default script plus every single deviation
            let base0 = self.run(ek, &w, &Script::default());
            let mut scripts = vec![Script::default()];
            if (self.m.has_pred || self.m.has_assert) && o.dev >= 1 {
                for i in 0..base0.consulted {
                    scripts.push(Script { deviations: vec![i] });
                }
            }
            for script in scripts {
                let base = if script.deviations.is_empty() {
                    base0.clone()
                } else {
                    self.run(ek, &w, &script)
                };
                if base.panic.is_some() {
                    continue;
                }
                for w2 in &variants {
                    let other = self.run(ek, w2, &script);
                    if other.panic.is_some() {
                        continue;
                    }
                    let mut map = vec![];
                    for (i, b) in w2.iter().enumerate() {
                        if !self.is_trivia_byte(*b) {
                            map.push(i);
                        }
                    }
                    self.tally.eval("C16");
                    // non-trivial: the insertion landed inside a rule node other than the root, i.e. the parse
                    // without trivia has more than one rule node, or the input is invalid
                    if !base.diags.is_empty() || base.nodes.iter().filter(|x| matches!(x, crate::ONode::Rule(..))).count() > 1 {
                        self.tally.nontrivial("C16");
                    }
                    let vs = oracle::c16_transparent(&base, &other, &map, w2.len(), names_r, names_t, &|t| sk[t as usize]);
                    self.tally.record(vs, ek, w2, &script, &String::from_utf8_lossy(&w));
                    self.tally.outcome(&other);
                }
            }
        }
    }
}

pub fn main_batch(jobs: &[Job]) {
    let opts = Opts::from_args();
    let out = std::io::stdout();
    if let Some(depth) = opts.history {
        let job = &jobs[opts.only.unwrap_or(0)];
        let err = job
            .subject
            .rule_names()
            .iter()
            .position(|n| *n == "error")
            .expect("error rule kind") as u16;
        let mut b = job.subject.builder();
        let stats = crate::history::explore(b.as_mut(), err, depth);
        println!("{}", crate::history::report(&stats));
        println!("DONE");
        return;
    }
    for (i, job) in jobs.iter().enumerate() {
        if let Some(only) = opts.only {
            if only != i {
                continue;
            }
        }
        if i < opts.from {
            continue;
        }
        println!("START {i}");
        out.lock().flush().ok();
        let g = vmodel::sexp::from_sexp(job.sexp);
        let m = Model::new(g);
        let mut ex = Explorer::new(&m, job.subject, &opts);
        ex.explore();
        let t = ex.tally;
        let mut s = format!("RESULT {{\"job\":{i},\"execs\":{},\"panics\":{},\"outcomes\":{}", t.execs, t.panics, t.outcomes.len());
        s.push_str(",\"evals\":{");
        s.push_str(
            &t.evals
                .iter()
                .map(|(k, v)| format!("{}:{}", json_str(k), v))
                .collect::<Vec<_>>()
                .join(","),
        );
        s.push_str("},\"nontrivial\":{");
        s.push_str(
            &t.nontrivial
                .iter()
                .map(|(k, v)| format!("{}:{}", json_str(k), v))
                .collect::<Vec<_>>()
                .join(","),
        );
        s.push_str("},\"viol_counts\":{");
        s.push_str(
            &t.viol_count
                .iter()
                .map(|((p, c), v)| format!("{}:{}", json_str(&format!("{p}:{c}")), v))
                .collect::<Vec<_>>()
                .join(","),
        );
        s.push_str("},\"viols\":[");
        s.push_str(&t.viols.join(","));
        s.push_str("]}");
        println!("{s}");
        out.lock().flush().ok();
    }
    println!("DONE");
}
