//! Oracles evaluated on one observation (or a pair of observations) of a real emitted parser.

use crate::tree::{self, T};
use crate::{ApiNode, EvKind, Obs};

#[derive(Clone, Debug)]
pub struct Viol {
    pub prop: &'static str,
    pub clause: &'static str,
    pub detail: String,
}

fn v(prop: &'static str, clause: &'static str, detail: String) -> Viol {
    Viol {
        prop,
        clause,
        detail,
    }
}

/// C01: the depth-first walk through the public API yields every input token exactly once, in order, with
/// its original span. `expected` = token discriminants of the input.
pub fn c01_lossless(obs: &Obs, expected: &[u16]) -> Vec<Viol> {
    let mut out = vec![];
    if let Some(p) = &obs.walk_panic {
        out.push(v(
            "C01",
            "tree-walk-panics",
            format!("walking the returned tree through Cst::children/get/span panicked: {p}"),
        ));
        return out;
    }
    let leaves: Vec<&ApiNode> = obs.api.iter().filter(|n| !n.is_rule).collect();
    if leaves.len() != expected.len() {
        out.push(v(
            "C01",
            "leaf-count",
            format!(
                "tree walk yields {} token nodes for {} input tokens",
                leaves.len(),
                expected.len()
            ),
        ));
        return out;
    }
    for (i, (l, e)) in leaves.iter().zip(expected.iter()).enumerate() {
        if l.kind != *e {
            out.push(v(
                "C01",
                "leaf-kind",
                format!("leaf {i} has token kind {} but input token {i} is {}", l.kind, e),
            ));
            break;
        }
        if l.span != (i, i + 1) {
            out.push(v(
                "C01",
                "leaf-span",
                format!("leaf {i} has span {:?}, original span is {:?}", l.span, (i, i + 1)),
            ));
            break;
        }
    }
    // raw vector agrees with the API walk (every node reachable exactly once)
    if obs.api.len() != obs.nodes.len() {
        out.push(v(
            "C01",
            "unreachable-nodes",
            format!(
                "API walk visits {} nodes, node vector holds {}",
                obs.api.len(),
                obs.nodes.len()
            ),
        ));
    }
    out
}

/// C02: structural well-formedness on the raw vector, agreement of `children()` with the extents, span
/// nesting and order, trivia edges, complete announced nodes.
pub fn c02_wellformed(obs: &Obs, is_skipped: &dyn Fn(u16) -> bool) -> Vec<Viol> {
    let mut out = vec![];
    if obs.walk_panic.is_some() && tree::build(&obs.nodes).is_ok() {
        // the raw vector is a tree but the API cannot walk it: C01 reports the walk, nothing to add here
        return out;
    }
    let t = match tree::build(&obs.nodes) {
        Ok(t) => t,
        Err(e) => {
            out.push(v("C02", "extent", e));
            return out;
        }
    };
    // API children = maximal sub-extents
    let mut expect: Vec<(usize, Vec<usize>)> = vec![];
    t.walk(None, &mut |n, _| {
        if let T::Rule {
            index, children, ..
        } = n
        {
            expect.push((*index, children.iter().map(|c| c.index()).collect()));
        }
    });
    let got: Vec<(usize, Vec<usize>)> = obs
        .api
        .iter()
        .filter(|n| n.is_rule)
        .map(|n| (n.index, n.children.clone()))
        .collect();
    if expect != got {
        let first = expect
            .iter()
            .zip(got.iter())
            .find(|(a, b)| a != b)
            .map(|(a, b)| format!("extents say {a:?}, children() says {b:?}"))
            .unwrap_or_else(|| format!("{} vs {} rule nodes", expect.len(), got.len()));
        out.push(v("C02", "children-iterator", first));
        return out;
    }
    // spans (from the API) nest and are ordered
    let span_of = |idx: usize| -> Option<(usize, usize)> {
        obs.api.iter().find(|n| n.index == idx).map(|n| n.span)
    };
    let mut problems: Vec<Viol> = vec![];
    t.walk(None, &mut |n, _| {
        if let T::Rule {
            index,
            children,
            kind: _,
            ..
        } = n
        {
            let Some(ps) = span_of(*index) else { return };
            let mut prev_end: Option<usize> = None;
            for c in children {
                let Some(cs) = span_of(c.index()) else { continue };
                if cs.0 > cs.1 || cs.0 < ps.0 || cs.1 > ps.1 {
                    problems.push(v(
                        "C02",
                        "span-nesting",
                        format!(
                            "child at {} has span {:?} outside parent {} span {:?}",
                            c.index(),
                            cs,
                            index,
                            ps
                        ),
                    ));
                }
                if let Some(pe) = prev_end {
                    if cs.0 < pe {
                        problems.push(v(
                            "C02",
                            "span-order",
                            format!(
                                "child at {} span {:?} starts before its left sibling ends ({pe})",
                                c.index(),
                                cs
                            ),
                        ));
                    }
                }
                prev_end = Some(cs.1);
            }
            // trivia edges (non-root)
            if *index != 0 {
                if let Some(T::Token { tok, .. }) = children.first() {
                    if is_skipped(*tok) {
                        problems.push(v(
                            "C02",
                            "starts-with-skipped",
                            format!("rule node at {index} starts with a skipped token"),
                        ));
                    }
                }
                if let Some(T::Token { tok, .. }) = children.last() {
                    if is_skipped(*tok) {
                        problems.push(v(
                            "C02",
                            "ends-with-skipped",
                            format!("rule node at {index} ends with a skipped token"),
                        ));
                    }
                }
            }
        }
    });
    out.extend(problems.into_iter().take(2));
    for ev in &obs.log {
        if ev.kind == EvKind::Create && !ev.ok {
            out.push(v(
                "C02",
                "announced-node-incomplete",
                format!(
                    "create_node_{} fired for node {} which did not hold a complete `{}` subtree at that time",
                    ev.name, ev.node, ev.name
                ),
            ));
            break;
        }
    }
    out
}

/// C04: empty diagnostic list iff the input is a sentence.
pub fn c04_membership(obs: &Obs, accepted: bool) -> Vec<Viol> {
    let mut out = vec![];
    if accepted && !obs.diags.is_empty() {
        out.push(v(
            "C04",
            "false-alarm",
            format!(
                "input is a sentence but the parser reports {:?}",
                obs.diags.first().unwrap()
            ),
        ));
    }
    if !accepted && obs.diags.is_empty() {
        out.push(v(
            "C04",
            "silent-accept",
            "input is not a sentence but no diagnostic was reported".to_string(),
        ));
    }
    out
}

/// C06: first diagnostic at the first offending token; strictly increasing positions; spans inside the source.
pub fn c06_positions(obs: &Obs, accepted: bool, viable: usize, n: usize) -> Vec<Viol> {
    let mut out = vec![];
    for d in &obs.diags {
        if d.0 > d.1 || d.1 > n {
            out.push(v(
                "C06",
                "span-outside-source",
                format!("diagnostic span {}..{} for a source of length {n}", d.0, d.1),
            ));
            return out;
        }
    }
    if accepted {
        if let Some(d) = obs.diags.first() {
            out.push(v(
                "C06",
                "diagnostic-on-sentence",
                format!("sentence draws diagnostic {d:?}"),
            ));
        }
        return out;
    }
    let want = if viable < n {
        (viable, viable + 1)
    } else {
        (n, n)
    };
    match obs.diags.first() {
        None => out.push(v(
            "C06",
            "no-diagnostic",
            format!("no diagnostic; first offending position is {want:?}"),
        )),
        Some(d) => {
            if (d.0, d.1) != want {
                out.push(v(
                    "C06",
                    "first-position",
                    format!(
                        "first diagnostic at {}..{} ({}), first offending token is at {want:?}",
                        d.0, d.1, d.2
                    ),
                ));
            }
        }
    }
    for w in obs.diags.windows(2) {
        if w[1].0 <= w[0].0 {
            out.push(v(
                "C06",
                "not-increasing",
                format!(
                    "diagnostic positions not strictly increasing: {}..{} then {}..{}",
                    w[0].0, w[0].1, w[1].0, w[1].1
                ),
            ));
            break;
        }
    }
    out
}

/// C16: `base` = parse of w, `other` = parse of w with trivia inserted; `map[i]` = position in w' of token i
/// of w, `n2` = length of w'.
#[allow(clippy::too_many_arguments)]
pub fn c16_transparent(
    base: &Obs,
    other: &Obs,
    map: &[usize],
    n2: usize,
    rule_names: &[&str],
    token_names: &[&str],
    is_skipped: &dyn Fn(u16) -> bool,
) -> Vec<Viol> {
    let mut out = vec![];
    let n = map.len();
    let render = |o: &Obs| -> Result<String, String> {
        let t = tree::build(&o.nodes)?;
        let mut s = String::new();
        t.render(rule_names, token_names, is_skipped, &mut s);
        Ok(s)
    };
    match (render(base), render(other)) {
        (Ok(a), Ok(b)) => {
            if a != b {
                out.push(v(
                    "C16",
                    "tree-differs",
                    format!("without trivia: {a}   with trivia: {b}"),
                ));
            }
        }
        _ => {} // malformed trees are C02's business
    }
    let mapped: Vec<(usize, usize, &str)> = base
        .diags
        .iter()
        .map(|d| {
            if d.0 >= n {
                (n2, n2, d.2.as_str())
            } else {
                (map[d.0], map[d.0] + (d.1 - d.0), d.2.as_str())
            }
        })
        .collect();
    let got: Vec<(usize, usize, &str)> = other
        .diags
        .iter()
        .map(|d| (d.0, d.1, d.2.as_str()))
        .collect();
    if mapped != got {
        out.push(v(
            "C16",
            "diagnostics-differ",
            format!("expected (shifted) {mapped:?}, got {got:?}"),
        ));
    }
    let preds = |o: &Obs| -> Vec<(&'static str, [u16; 3], bool)> {
        o.log
            .iter()
            .filter(|e| e.kind == EvKind::Pred)
            .map(|e| (e.name, e.peek, e.answer))
            .collect()
    };
    let (pa, pb) = (preds(base), preds(other));
    if pa != pb {
        out.push(v(
            "C16",
            "predicate-lookahead-differs",
            format!("predicate calls without trivia {pa:?}, with trivia {pb:?}"),
        ));
    }
    for (name, peek, _) in pb {
        if peek.iter().any(|t| is_skipped(*t)) {
            out.push(v(
                "C16",
                "lookahead-sees-skipped",
                format!("predicate {name} was offered lookahead {peek:?} containing a skipped token"),
            ));
            break;
        }
    }
    out
}

/// Expected tree / action log (reference) against the observed ones. `expected` is the rendering of the
/// reference tree, `actions` the reference action log.
pub fn c05_tree(
    prop: &'static str,
    obs: &Obs,
    expected: &str,
    actions: &[String],
    rule_names: &[&str],
    token_names: &[&str],
) -> Vec<Viol> {
    let mut out = vec![];
    let got = match tree::build(&obs.nodes) {
        Ok(t) => {
            let mut s = String::new();
            t.render(rule_names, token_names, &|_| false, &mut s);
            s
        }
        Err(e) => format!("<malformed: {e}>"),
    };
    if got != expected {
        out.push(v(
            prop,
            "tree-differs",
            format!("expected {expected}   got {got}"),
        ));
    }
    let got_actions: Vec<String> = obs
        .log
        .iter()
        .filter(|e| e.kind == EvKind::Action)
        .map(|e| e.name.to_string())
        .collect();
    if got_actions != actions {
        out.push(v(
            prop,
            "actions-differ",
            format!("expected actions {actions:?}, got {got_actions:?}"),
        ));
    }
    out
}

/// C08 (iii)/(iv): callback accounting and no action inside an attempt that can be undone.
/// C08: a rule node left half-open in the returned tree - an `error` placeholder without children that no
/// create callback announced. Only an aborted attempt leaves such a node behind, and only a `&` (return)
/// can legitimately produce an empty announced error node, so the caller applies this to grammars without `&`.
pub fn c08_half_open(obs: &Obs, rule_names: &[&str]) -> Vec<Viol> {
    let mut out = vec![];
    for (i, n) in obs.nodes.iter().enumerate() {
        if let crate::ONode::Rule(k, 0) = n {
            if rule_names[*k as usize] == "error" {
                out.push(v(
                    "C08",
                    "half-open-node",
                    format!("the returned tree contains an empty `error` node at {i}: a rule was left half-open as if an attempt had been abandoned, after the ordered choice was over"),
                ));
                break;
            }
        }
    }
    out
}

pub fn c08_callbacks(obs: &Obs, rule_names: &[&str]) -> Vec<Viol> {
    let mut out = vec![];
    let mut balance: std::collections::BTreeMap<&str, i64> = Default::default();
    for e in &obs.log {
        match e.kind {
            EvKind::Create => *balance.entry(e.name).or_insert(0) += 1,
            EvKind::Delete => *balance.entry(e.name).or_insert(0) -= 1,
            EvKind::Action => {
                if e.in_choice {
                    out.push(v(
                        "C08",
                        "action-in-attempt",
                        format!("action_{} ran while an ordered-choice attempt could still be undone", e.name),
                    ));
                }
            }
            _ => {}
        }
    }
    let mut present: std::collections::BTreeMap<&str, i64> = Default::default();
    for n in &obs.nodes {
        if let crate::ONode::Rule(k, _) = n {
            *present.entry(rule_names[*k as usize]).or_insert(0) += 1;
        }
    }
    let kinds: std::collections::BTreeSet<&str> = balance.keys().chain(present.keys()).copied().collect();
    for k in kinds {
        let b = balance.get(k).copied().unwrap_or(0);
        let p = present.get(k).copied().unwrap_or(0);
        let ok = if k == "error" { b <= p } else { b == p };
        if !ok {
            out.push(v(
                "C08",
                "callback-accounting",
                format!("node kind `{k}`: created - deleted = {b}, present in the final tree = {p}"),
            ));
            break;
        }
    }
    out
}
