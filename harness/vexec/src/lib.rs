//! Runtime linked into every compiled batch of emitted parsers (engine B): observation types, the
//! callback environment, the per-grammar exploration driver and the oracles.

pub mod driver;
pub mod history;
pub mod oracle;
pub mod tree;

use std::cell::RefCell;
use std::rc::Rc;

#[derive(Clone, Debug, PartialEq, Eq)]
pub enum ONode {
    /// (rule kind discriminant, end offset)
    Rule(u16, usize),
    /// (token discriminant, span index)
    Token(u16, usize),
}

/// What the API walk (`Cst::children/get/span`) saw for one rule node.
#[derive(Clone, Debug, PartialEq, Eq)]
pub struct ApiNode {
    pub index: usize,
    pub is_rule: bool,
    /// rule kind or token discriminant
    pub kind: u16,
    pub span: (usize, usize),
    pub children: Vec<usize>,
    pub depth: usize,
}

#[derive(Clone, Debug, PartialEq, Eq)]
pub enum EvKind {
    Pred,
    Assert,
    Action,
    Create,
    Delete,
}

#[derive(Clone, Debug, PartialEq, Eq)]
pub struct Ev {
    pub kind: EvKind,
    /// callback name without the prefix, e.g. `s_1` or a node kind name
    pub name: &'static str,
    /// parser cursor (index into the token vector) when the callback fired
    pub pos: usize,
    /// node index for create / delete
    pub node: usize,
    pub in_choice: bool,
    /// create: announced node is in place with the announced kind and a complete, well nested subtree
    pub ok: bool,
    /// pred: peek(0..3) as token discriminants
    pub peek: [u16; 3],
    /// pred / assert: the answer given
    pub answer: bool,
    /// number of nodes in the vector when the callback fired
    pub node_len: usize,
}

#[derive(Clone, Debug, Default, PartialEq, Eq)]
pub struct Obs {
    pub nodes: Vec<ONode>,
    pub spans: Vec<(usize, usize)>,
    pub diags: Vec<(usize, usize, String)>,
    pub log: Vec<Ev>,
    /// pre-order API walk of the returned tree
    pub api: Vec<ApiNode>,
    pub panic: Option<String>,
    /// the parse returned, but walking the returned tree through the public API panicked
    pub walk_panic: Option<String>,
    /// how many times the answer script was consulted
    pub consulted: usize,
}

/// Answers for predicates (default true) and assertions (default pass): the set of consultation indices at
/// which the default answer is inverted.
#[derive(Clone, Debug, Default, PartialEq, Eq)]
pub struct Script {
    pub deviations: Vec<usize>,
}

#[derive(Default)]
pub struct EnvInner {
    pub script: Script,
    pub consulted: usize,
    pub log: Vec<Ev>,
}

/// The `Context` type of every harness parser.
#[derive(Clone, Default)]
pub struct Env(pub Rc<RefCell<EnvInner>>);

impl Env {
    pub fn new(script: &Script) -> Env {
        Env(Rc::new(RefCell::new(EnvInner {
            script: script.clone(),
            consulted: 0,
            log: vec![],
        })))
    }
    /// returns the answer for the next consultation: `true` = default (predicate holds / assertion passes)
    pub fn consult(&self) -> bool {
        let mut e = self.0.borrow_mut();
        let i = e.consulted;
        e.consulted += 1;
        !e.script.deviations.contains(&i)
    }
    pub fn log(&self, ev: Ev) {
        self.0.borrow_mut().log.push(ev);
    }
}

/// One compiled emitted parser.
pub trait Subject {
    /// names of the `Rule` enum variants by discriminant (snake case, as printed by Debug)
    fn rule_names(&self) -> &'static [&'static str];
    /// names of the `Token` enum variants by discriminant
    fn token_names(&self) -> &'static [&'static str];
    /// maps an input byte to the token discriminant (as the harness lexer does)
    fn run(&self, entry: usize, input: &[u8], script: &Script) -> Obs;
    /// the real tree builder of this parser (engine C)
    fn builder(&self) -> Box<dyn history::Builder>;
}

pub fn json_str(s: &str) -> String {
    let mut o = String::with_capacity(s.len() + 2);
    o.push('"');
    for c in s.chars() {
        match c {
            '"' => o.push_str("\\\""),
            '\\' => o.push_str("\\\\"),
            '\n' => o.push_str("\\n"),
            '\r' => o.push_str("\\r"),
            '\t' => o.push_str("\\t"),
            c if (c as u32) < 0x20 => o.push_str(&format!("\\u{:04x}", c as u32)),
            c => o.push(c),
        }
    }
    o.push('"');
    o
}
