//! Explicit tree built from the flat node vector, with the structural checks of C02.

use crate::ONode;

#[derive(Clone, Debug, PartialEq, Eq)]
pub enum T {
    Rule {
        kind: u16,
        index: usize,
        end: usize,
        children: Vec<T>,
    },
    Token {
        tok: u16,
        span: usize,
        index: usize,
    },
}

impl T {
    pub fn index(&self) -> usize {
        match self {
            T::Rule { index, .. } | T::Token { index, .. } => *index,
        }
    }
    pub fn end(&self) -> usize {
        match self {
            T::Rule { end, .. } => *end,
            T::Token { index, .. } => *index,
        }
    }
    pub fn leaves(&self, out: &mut Vec<(u16, usize)>) {
        match self {
            T::Token { tok, span, .. } => out.push((*tok, *span)),
            T::Rule { children, .. } => {
                for c in children {
                    c.leaves(out)
                }
            }
        }
    }
    pub fn walk<'a>(&'a self, parent: Option<&'a T>, f: &mut dyn FnMut(&'a T, Option<&'a T>)) {
        f(self, parent);
        if let T::Rule { children, .. } = self {
            for c in children {
                c.walk(Some(self), f);
            }
        }
    }
    /// canonical text without positions; tokens for which `skip` holds are dropped
    pub fn render(&self, rule_names: &[&str], token_names: &[&str], skip: &dyn Fn(u16) -> bool, out: &mut String) {
        match self {
            T::Token { tok, .. } => {
                if !skip(*tok) {
                    out.push_str(token_names[*tok as usize]);
                    out.push(' ');
                }
            }
            T::Rule { kind, children, .. } => {
                out.push_str(rule_names[*kind as usize]);
                out.push('(');
                for c in children {
                    c.render(rule_names, token_names, skip, out);
                }
                out.push(')');
            }
        }
    }
}

/// Parses the flat vector starting at `i`; every rule extent must stay inside `limit` (inclusive).
fn parse(nodes: &[ONode], i: usize, limit: usize) -> Result<T, String> {
    match &nodes[i] {
        ONode::Token(tok, span) => Ok(T::Token {
            tok: *tok,
            span: *span,
            index: i,
        }),
        ONode::Rule(kind, e) => {
            let end = i + e;
            if end > limit {
                return Err(format!(
                    "rule node at {i} ends at {end}, outside its parent's extent (ends at {limit})"
                ));
            }
            let mut children = vec![];
            let mut j = i + 1;
            while j <= end {
                let c = parse(nodes, j, end)?;
                j = c.end() + 1;
                children.push(c);
            }
            Ok(T::Rule {
                kind: *kind,
                index: i,
                end,
                children,
            })
        }
    }
}

/// The whole vector as one tree: node 0 must be a rule node whose extent is the whole vector.
pub fn build(nodes: &[ONode]) -> Result<T, String> {
    if nodes.is_empty() {
        return Err("empty node vector".into());
    }
    match &nodes[0] {
        ONode::Rule(_, e) => {
            if *e != nodes.len() - 1 {
                return Err(format!(
                    "root extent ends at {} but the node vector has {} nodes",
                    e,
                    nodes.len()
                ));
            }
        }
        _ => return Err("node 0 is not a rule node".into()),
    }
    parse(nodes, 0, nodes.len() - 1)
}

/// Sub-tree starting at `i` (used for the create-callback check): must be a rule of the given kind whose
/// extent lies inside the vector and is well nested.
pub fn subtree_ok(nodes: &[ONode], i: usize, kind: u16) -> bool {
    if i >= nodes.len() {
        return false;
    }
    match &nodes[i] {
        ONode::Rule(k, e) => *k == kind && i + e < nodes.len() && parse(nodes, i, i + e).is_ok(),
        _ => false,
    }
}
