//! Engine C: explicit-state BFS over well-nested histories of tree-builder operations on the real emitted
//! `CstData` (open, close, advance, mark, open_before, mark_truncation/truncate, close_root), checked after every
//! operation against a boring reference tree ("on close, trailing skipped tokens move to the parent"), and at
//! the end through the public `children / get / span` API.

use crate::oracle;
use crate::{json_str, ApiNode, ONode, Obs};
use std::collections::HashSet;

/// The real builder of one emitted parser (implemented inside the harness module, where `CstData`'s private
/// methods are visible).
pub trait Builder {
    /// fresh `CstData` for `ntokens` tokens with spans i..i+1
    fn reset(&mut self, ntokens: usize);
    fn open(&mut self) -> usize;
    fn close(&mut self, mark: usize, kind: u16) -> usize;
    fn close_root(&mut self, mark: usize, kind: u16) -> usize;
    fn advance(&mut self, tok: u16, skip: bool);
    fn open_before(&mut self, mark: usize) -> usize;
    fn mark(&self) -> usize;
    fn snapshot(&self) -> (usize, usize, usize);
    fn truncate(&mut self, s: (usize, usize, usize));
    fn nodes(&self) -> Vec<ONode>;
    /// pre-order walk through the public API; Err = the walk panicked
    fn api(&self) -> Result<Vec<ApiNode>, String>;
}

#[derive(Clone, Debug, PartialEq, Eq, Hash)]
pub enum Op {
    Open,
    Close,
    Tok,
    Skip,
    Mark,
    /// open_before(live mark i)
    Wrap(usize),
    /// open_before(position of the node closed last in this frame) - what Pratt rules do
    WrapClosed,
    Snap,
    Restore,
    Finish,
}

#[derive(Clone, Debug, PartialEq, Eq, Hash)]
enum Item {
    Tok { skip: bool, id: usize },
    Node(RNode),
}

#[derive(Clone, Debug, PartialEq, Eq, Hash)]
struct RNode {
    closed: bool,
    children: Vec<Item>,
}

#[derive(Clone, Debug, PartialEq, Eq, Hash)]
struct RefState {
    /// open frames, root first; frame k+1 is (conceptually) the last child of frame k
    frames: Vec<RNode>,
    /// live marks: (frame depth, child index)
    marks: Vec<(usize, usize)>,
    /// child index of the node closed last in the innermost frame (if nothing was appended since)
    last_closed: Option<(usize, usize)>,
    tokens: usize,
    last_was_token: bool,
    finished: bool,
}

const KIND: u16 = 1; // any non-error rule kind; the root uses the same
const ERR_PLACEHOLDER: u16 = u16::MAX; // resolved by the caller to the discriminant of Rule::Error

impl RefState {
    fn new() -> Self {
        RefState {
            frames: vec![RNode {
                closed: false,
                children: vec![],
            }],
            marks: vec![],
            last_closed: None,
            tokens: 0,
            last_was_token: false,
            finished: false,
        }
    }
    fn depth(&self) -> usize {
        self.frames.len() - 1
    }
    fn top(&mut self) -> &mut RNode {
        self.frames.last_mut().unwrap()
    }
    fn flat_len(items: &[Item]) -> usize {
        items
            .iter()
            .map(|i| match i {
                Item::Tok { .. } => 1,
                Item::Node(n) => 1 + Self::flat_len(&n.children),
            })
            .sum()
    }
    fn serialize_items(items: &[Item], err: u16, out: &mut Vec<ONode>) {
        for i in items {
            match i {
                Item::Tok { skip, id } => out.push(ONode::Token(if *skip { 1 } else { 0 }, *id)),
                Item::Node(n) => {
                    let len = Self::flat_len(&n.children);
                    out.push(ONode::Rule(if n.closed { KIND } else { err }, if n.closed { len } else { 0 }));
                    Self::serialize_items(&n.children, err, out);
                }
            }
        }
    }
    /// flat vector the real builder must hold now (token kinds abstracted to skip / non-skip)
    fn serialize(&self, err: u16) -> Vec<ONode> {
        let mut out = vec![];
        for (k, f) in self.frames.iter().enumerate() {
            let closed_root = k == 0 && self.finished;
            if closed_root {
                // everything below the root has been folded into frame 0 by then
                let len = Self::flat_len(&f.children);
                out.push(ONode::Rule(KIND, len));
            } else {
                out.push(ONode::Rule(err, 0));
            }
            Self::serialize_items(&f.children, err, &mut out);
        }
        out
    }
    fn flat_index_of(&self, frame: usize, child: usize) -> usize {
        // flat index at which child `child` of frame `frame` starts
        let mut idx = 0;
        for f in &self.frames[..frame] {
            idx += 1 + Self::flat_len(&f.children);
        }
        idx + 1 + Self::flat_len(&self.frames[frame].children[..child])
    }
}

struct Cfg {
    depth: usize,
    max_tokens: usize,
    max_frames: usize,
    max_marks: usize,
}

/// what the real builder handles look like for a reference state: derived, not stored
struct Real<'a> {
    b: &'a mut dyn Builder,
    /// flat index of the placeholder of each open frame
    frame_marks: Vec<usize>,
}

#[derive(Default)]
pub struct HistoryStats {
    pub states: u64,
    pub transitions: u64,
    pub finished: u64,
    pub max_depth: usize,
    pub violations: Vec<String>,
    pub samples: Vec<String>,
}

fn legal_ops(s: &RefState, cfg: &Cfg, snap: &Option<(RefState, usize)>) -> Vec<Op> {
    let mut ops = vec![];
    if s.finished {
        return ops;
    }
    if s.frames.len() < cfg.max_frames {
        ops.push(Op::Open);
    }
    if s.depth() > 0 {
        // a frame opened inside a snapshot region may only be closed inside it; closing the frame that was open
        // when the snapshot was taken would make the snapshot unrestorable: generated code never does that
        let guarded = snap.as_ref().is_some_and(|(st, _)| st.frames.len() >= s.frames.len());
        if !guarded {
            ops.push(Op::Close);
        }
    }
    if s.tokens < cfg.max_tokens {
        ops.push(Op::Tok);
        // skipped tokens follow a token in the same step; the only other place is the run at the very start of
        // the input, which is consumed before anything else happens (init_skip)
        let at_start = s.depth() == 0
            && s.marks.is_empty()
            && snap.is_none()
            && s.frames[0].children.iter().all(|c| matches!(c, Item::Tok { skip: true, .. }));
        if s.last_was_token || at_start {
            ops.push(Op::Skip);
        }
    }
    if s.marks.len() < cfg.max_marks {
        ops.push(Op::Mark);
    }
    if s.frames.len() < cfg.max_frames {
        // inside a snapshot region a node may only be inserted behind the snapshot point (lelwel rejects
        // creations in an attempt whose marker lies in front of the choice: E036)
        let behind_snapshot = |d: usize, at: usize| -> bool {
            match snap {
                None => true,
                Some((st, _)) => st.frames.len() <= d || at >= st.frames[d].children.len(),
            }
        };
        for (i, m) in s.marks.iter().enumerate() {
            if m.0 == s.depth() && behind_snapshot(m.0, m.1) {
                ops.push(Op::Wrap(i));
            }
        }
        if let Some((d, at)) = s.last_closed {
            if d == s.depth() && behind_snapshot(d, at) {
                ops.push(Op::WrapClosed);
            }
        }
    }
    match snap {
        None => ops.push(Op::Snap),
        Some(_) => ops.push(Op::Restore),
    }
    if s.depth() == 0 && snap.is_none() {
        ops.push(Op::Finish);
    }
    ops
}

fn apply_ref(s: &mut RefState, op: &Op) {
    match op {
        Op::Open => {
            s.frames.push(RNode {
                closed: false,
                children: vec![],
            });
            s.last_closed = None;
            s.last_was_token = false;
        }
        Op::Close => {
            let mut f = s.frames.pop().unwrap();
            f.closed = true;
            // trailing skipped tokens move to the parent
            let mut hoisted = vec![];
            while matches!(f.children.last(), Some(Item::Tok { skip: true, .. })) {
                hoisted.push(f.children.pop().unwrap());
            }
            hoisted.reverse();
            let d = s.depth();
            s.marks.retain(|m| m.0 <= d);
            let parent = s.top();
            let at = parent.children.len();
            parent.children.push(Item::Node(f));
            parent.children.extend(hoisted);
            s.last_closed = Some((d, at));
            s.last_was_token = false;
        }
        Op::Tok | Op::Skip => {
            let id = s.tokens;
            s.tokens += 1;
            s.top().children.push(Item::Tok {
                skip: matches!(op, Op::Skip),
                id,
            });
            s.last_closed = None;
            s.last_was_token = true;
        }
        Op::Mark => {
            let d = s.depth();
            let at = s.frames[d].children.len();
            s.marks.push((d, at));
            // a token and the skipped tokens behind it are consumed in one step: nothing comes in between
            s.last_was_token = false;
        }
        Op::Wrap(_) | Op::WrapClosed => {
            let d = s.depth();
            let at = match op {
                Op::Wrap(i) => s.marks[*i].1,
                _ => s.last_closed.unwrap().1,
            };
            let moved: Vec<Item> = s.frames[d].children.drain(at..).collect();
            // markers visited after this one are inside the new node now (lelwel rejects their use: E035)
            s.marks.retain(|m| !(m.0 == d && m.1 > at));
            s.frames.push(RNode {
                closed: false,
                children: moved,
            });
            s.last_closed = None;
            s.last_was_token = false;
        }
        Op::Snap | Op::Restore => {
            s.last_was_token = false;
        }
        Op::Finish => {
            s.finished = true;
        }
    }
}

/// replays a history on the real builder and the reference; returns the reference state, or a violation
fn continue_compare(_s: &RefState) {}

fn replay(b: &mut dyn Builder, hist: &[Op], err: u16, cfg: &Cfg) -> Result<(RefState, Option<(RefState, usize)>), String> {
    b.reset(cfg.max_tokens);
    let mut s = RefState::new();
    let mut real = Real {
        b,
        frame_marks: vec![],
    };
    real.frame_marks.push(real.b.open());
    let mut snap: Option<(RefState, usize)> = None;
    let mut real_snap: Option<((usize, usize, usize), Vec<usize>)> = None;
    for (step, op) in hist.iter().enumerate() {
        match op {
            Op::Open => real.frame_marks.push(real.b.open()),
            Op::Close => {
                let m = real.frame_marks.pop().unwrap();
                real.b.close(m, KIND);
            }
            Op::Tok => real.b.advance(0, false),
            Op::Skip => real.b.advance(1, true),
            Op::Mark => {
                let m = real.b.mark();
                let d = s.depth();
                let want = s.flat_index_of(d, s.frames[d].children.len());
                if m != want {
                    return Err(format!("step {step}: mark() = {m}, reference position {want}"));
                }
            }
            Op::Wrap(_) | Op::WrapClosed => {
                let d = s.depth();
                let at = match op {
                    Op::Wrap(i) => s.marks[*i].1,
                    _ => s.last_closed.unwrap().1,
                };
                let flat = s.flat_index_of(d, at);
                real.frame_marks.push(real.b.open_before(flat));
            }
            Op::Snap => {
                let mut st = s.clone();
                apply_ref(&mut st, op);
                snap = Some((st, step));
                real_snap = Some((real.b.snapshot(), real.frame_marks.clone()));
            }
            Op::Restore => {
                let (st, _) = snap.take().unwrap();
                let (rs, fm) = real_snap.take().unwrap();
                real.b.truncate(rs);
                real.frame_marks = fm;
                s = st;
                continue_compare(&s);
            }
            Op::Finish => {
                let m = real.frame_marks.pop().unwrap();
                real.b.close_root(m, KIND);
            }
        }
        apply_ref(&mut s, op);
        // compare the flat vectors (token kinds abstracted)
        let want = s.serialize(err);
        let got: Vec<ONode> = real
            .b
            .nodes()
            .into_iter()
            .map(|n| match n {
                ONode::Rule(k, e) => ONode::Rule(if k == err { err } else { KIND }, e),
                t => t,
            })
            .collect();
        if want != got {
            return Err(format!(
                "step {step} ({op:?}): node vector differs from the reference tree: real {got:?} reference {want:?}"
            ));
        }
    }
    Ok((s, snap))
}

pub fn explore(b: &mut dyn Builder, err: u16, depth: usize) -> HistoryStats {
    let cfg = Cfg {
        depth,
        max_tokens: 4,
        max_frames: 4,
        max_marks: 2,
    };
    let mut stats = HistoryStats::default();
    let mut seen: HashSet<(RefState, Option<RefState>)> = HashSet::new();
    let mut frontier: Vec<Vec<Op>> = vec![vec![]];
    seen.insert((RefState::new(), None));
    for d in 0..=cfg.depth {
        let mut next: Vec<Vec<Op>> = vec![];
        for hist in &frontier {
            let (s, snap) = match replay(b, hist, err, &cfg) {
                Ok(x) => x,
                Err(e) => {
                    if stats.violations.len() < 5 {
                        stats.violations.push(format!("history {hist:?}: {e}"));
                    }
                    continue;
                }
            };
            stats.states += 1;
            stats.max_depth = d;
            if s.finished {
                stats.finished += 1;
                // final tree through the public API: C01 / C02 oracles on the real builder
                let mut obs = Obs::default();
                obs.nodes = b.nodes();
                match b.api() {
                    Ok(api) => obs.api = api,
                    Err(p) => obs.walk_panic = Some(p),
                }
                obs.spans = (0..cfg.max_tokens).map(|i| (i, i + 1)).collect();
                let expected: Vec<u16> = {
                    let mut v = vec![];
                    fn leaves(items: &[Item], v: &mut Vec<u16>) {
                        for i in items {
                            match i {
                                Item::Tok { skip, .. } => v.push(if *skip { 1 } else { 0 }),
                                Item::Node(n) => leaves(&n.children, v),
                            }
                        }
                    }
                    leaves(&s.frames[0].children, &mut v);
                    v
                };
                let mut vs = oracle::c01_lossless(&obs, &expected);
                vs.extend(oracle::c02_wellformed(&obs, &|t| t == 1));
                for v in vs {
                    if stats.violations.len() < 5 {
                        stats.violations.push(format!("history {hist:?}: {} {}: {}", v.prop, v.clause, v.detail));
                    }
                }
                if stats.samples.len() < 3 && hist.len() >= 7 {
                    stats.samples.push(format!("{hist:?}"));
                }
                continue;
            }
            if d == cfg.depth {
                continue;
            }
            for op in legal_ops(&s, &cfg, &snap) {
                stats.transitions += 1;
                let mut h = hist.clone();
                h.push(op.clone());
                // successor key from the reference alone (the real side is checked on replay)
                let mut s2 = s.clone();
                let mut snap2 = snap.as_ref().map(|x| x.0.clone());
                match op {
                    Op::Snap => {
                        apply_ref(&mut s2, &op);
                        snap2 = Some(s2.clone());
                    }
                    Op::Restore => {
                        s2 = snap2.take().unwrap();
                    }
                    _ => apply_ref(&mut s2, &op),
                }
                if seen.insert((s2, snap2)) {
                    next.push(h);
                }
            }
        }
        frontier = next;
        if frontier.is_empty() {
            break;
        }
    }
    stats
}

pub fn report(stats: &HistoryStats) -> String {
    format!(
        "HISTORY {{\"states\":{},\"transitions\":{},\"finished\":{},\"max_depth\":{},\"violations\":[{}],\"samples\":[{}]}}",
        stats.states,
        stats.transitions,
        stats.finished,
        stats.max_depth,
        stats.violations.iter().map(|v| json_str(v)).collect::<Vec<_>>().join(","),
        stats.samples.iter().map(|v| json_str(v)).collect::<Vec<_>>().join(",")
    )
}

#[allow(dead_code)]
const _: u16 = ERR_PLACEHOLDER;
