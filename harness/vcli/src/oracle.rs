//! The oracle for C19: which file effects and which exit status the property statement allows for one
//! invocation, given the directory state before it.

use crate::run::*;
use crate::tree::*;
use codespan_reporting::diagnostic::Severity;
use std::collections::BTreeSet;

#[derive(Clone, Copy, PartialEq, Eq, PartialOrd, Ord, Debug)]
pub enum Verdict {
    Accepted,
    Warnings,
    Syntax,
    Semantic,
    Missing,
    IsDir,
    NotUtf8,
}

impl Verdict {
    pub fn readable(self) -> bool {
        !matches!(self, Verdict::Missing | Verdict::IsDir | Verdict::NotUtf8)
    }
    pub fn has_error(self) -> bool {
        matches!(self, Verdict::Syntax | Verdict::Semantic)
    }
    pub fn name(self) -> &'static str {
        match self {
            Verdict::Accepted => "accepted",
            Verdict::Warnings => "warnings",
            Verdict::Syntax => "syntax-error",
            Verdict::Semantic => "semantic-error",
            Verdict::Missing => "missing-file",
            Verdict::IsDir => "is-directory",
            Verdict::NotUtf8 => "invalid-utf8",
        }
    }
}

/// Independent knowledge of the grammar's verdict: the lelwel front end called in-process.
pub fn classify_source(src: &str) -> Verdict {
    let mut diags = vec![];
    let cst = lelwel::frontend::parser::Parser::new(src, &mut diags).parse(&mut diags);
    if diags.iter().any(|d| d.severity == Severity::Error) {
        return Verdict::Syntax;
    }
    let _sema = lelwel::frontend::sema::SemanticPass::run(&cst, &mut diags);
    if diags.iter().any(|d| d.severity == Severity::Error) {
        Verdict::Semantic
    } else if diags.is_empty() {
        Verdict::Accepted
    } else {
        Verdict::Warnings
    }
}

pub fn classify(before: &Snap) -> Verdict {
    match before.get(GRAMMAR) {
        None => Verdict::Missing,
        Some((Node::File { bytes, .. }, _)) => match std::str::from_utf8(bytes) {
            Ok(s) => classify_source(s),
            Err(_) => Verdict::NotUtf8,
        },
        Some(_) => Verdict::IsDir,
    }
}

/// Number of error diagnostics the tool reported on stderr (rich form `error[E003]: ...` / `error: ...`
/// at the start of a line, short form `<file>:<l>:<c>: error[E003]: ...`). The line clap prints for an
/// I/O failure (`error: <os error>`, blank line, `Usage: ...`) is not a diagnostic.
pub fn errors_reported(stderr: &str) -> usize {
    let lines: Vec<&str> = stderr.lines().collect();
    (0..lines.len())
        .filter(|&i| {
            let l = lines[i];
            let diag = l.starts_with("error[") || l.starts_with("error:") || l.contains(": error[") || l.contains(": error:");
            let clap = lines.get(i + 1).is_some_and(|x| x.is_empty())
                && lines.get(i + 2).is_some_and(|x| x.starts_with("Usage:"));
            diag && !clap
        })
        .count()
}

pub fn panicked(r: &StepResult) -> bool {
    r.exit == Some(101) || r.stderr.contains("panicked at")
}

pub struct Viol {
    pub key: String,
    pub summary: String,
}

pub struct Judgement {
    pub verdict: Verdict,
    pub pre: &'static str,
    pub effects: Effects,
    /// effects with role-based path names (cwd/, gdir/, out/)
    pub effect_names: Vec<String>,
    pub errors_reported: usize,
    pub panicked: bool,
    pub violations: Vec<Viol>,
}

/// Names a path by the role of its directory so that keys do not depend on the layout.
fn role(case: &Case, path: &str) -> String {
    let (d, f) = path.rsplit_once('/').unwrap_or(("", path));
    let (cwd, out) = (case.cwd_rel(), case.out_rel());
    let r = match f {
        "generated.rs" if d == out => "out",
        "lexer.rs" | "parser.rs" | "grammar.llw" if d == "g" => "gdir",
        _ if d == cwd => "cwd",
        _ if d == "g" => "gdir",
        _ if d == out => "out",
        _ => return path.to_string(),
    };
    format!("{r}/{f}")
}

pub fn judge(case: &Case, i: usize, r: &StepResult) -> Judgement {
    let st = &case.steps[i];
    let fl = st.flags;
    let verdict = classify(&r.before);
    let effects = diff(&r.before, &r.after);
    let has = |p: &str| r.before.contains_key(p);
    let (lexer, parser) = ("g/lexer.rs".to_string(), "g/parser.rs".to_string());
    let pre = match (has(&lexer), has(&parser)) {
        (false, false) => "none",
        (true, false) => "lexer.rs",
        (false, true) => "parser.rs",
        (true, true) => "both",
    };
    let generated = format!("{}/generated.rs", case.out_rel());
    let graph = format!("{}/parser.gv", case.cwd_rel());
    let entry = if st.entry == Entry::Llw { "llw" } else { "vbuild" };
    let head = |kind: &str| format!("{kind}:entry={entry}:flags={}", fl.mode_str());
    let exit_s = r.exit.map(|c| c.to_string()).unwrap_or("signal".into());
    let what = format!("`{}` [{} grammar, pre-existing: {pre}, output: {:?}, layout: {:?}]",
        r.argv.join(" "), verdict.name(), case.out, case.layout);
    let n_err = errors_reported(&r.stderr);
    let panic = panicked(r);
    let ptag = if panic { ":panic" } else { "" };
    let out_writable = matches!(case.out, OutKind::Default | OutKind::Other);
    let no_error = verdict.readable() && !verdict.has_error();
    let mut v = vec![];

    // ---- file effects ----
    let mut allowed: BTreeSet<String> = BTreeSet::new();
    let mut required: Vec<String> = vec![];
    if fl.c {
        // check mode: no file is created or modified, whatever the other flags say
    } else if fl.f {
        // formatting rewrites the grammar file in place; nothing else
        if verdict.readable() {
            allowed.insert(GRAMMAR.to_string());
        }
    } else if no_error {
        allowed.insert(generated.clone());
        if fl.g {
            allowed.insert(graph.clone());
        }
        if pre == "none" {
            allowed.insert(lexer.clone());
            allowed.insert(parser.clone());
        }
        if out_writable {
            required.push(generated.clone());
            if pre == "none" {
                required.push(lexer.clone());
                required.push(parser.clone());
            }
        }
    }
    for (p, ch) in &effects {
        if allowed.contains(p) {
            continue;
        }
        let (kind, extra) = if fl.c {
            ("check-mode-write", String::new())
        } else if (p == &lexer || p == &parser) && has(p) {
            ("skeleton-clobbered", format!(":pre={pre}"))
        } else if p == &lexer || p == &parser {
            ("unpromised-skeleton", format!(":pre={pre}"))
        } else {
            ("unpromised-write", String::new())
        };
        v.push(Viol {
            key: format!("{}:file={}{extra}:verdict={}", head(kind), role(case, p), verdict.name()),
            summary: format!("{kind}: {what} -> {ch:?} {p} (exit {exit_s})"),
        });
    }
    // cascade rule: report only the first promised file that is missing
    if let Some(p) = required.iter().find(|p| !effects.contains_key(*p)) {
        v.push(Viol {
            key: format!("{}:file={}:verdict={}{ptag}", head("not-written"), role(case, p), verdict.name()),
            summary: format!("not-written: {what} did not write {p} (exit {exit_s})"),
        });
    }

    // ---- exit status ----
    let exit_class = match r.exit {
        Some(0) => "0",
        _ if panic => "panic",
        Some(_) => "nonzero",
        None => "signal",
    };
    if !fl.f {
        let mode = if fl.c { "check" } else { "generate" };
        if !verdict.readable() {
            if r.exit == Some(0) {
                v.push(Viol {
                    key: format!("{}:verdict={}", head("unreadable-exit0"), verdict.name()),
                    summary: format!("unreadable-exit0: {what} exits 0"),
                });
            }
        } else {
            if (n_err > 0) != verdict.has_error() {
                v.push(Viol {
                    key: format!("{}:reported={}:verdict={}{ptag}", head("report-mismatch"), (n_err > 0), verdict.name()),
                    summary: format!("report-mismatch: {what}: {n_err} error diagnostic(s) on stderr, front end says {}", verdict.name()),
                });
            }
            if mode == "generate" && no_error && !out_writable {
                // the tool cannot write generated.rs: it has to say so, or the file has to be there after all
                if r.exit == Some(0) && !r.after.contains_key(&generated) {
                    v.push(Viol {
                        key: format!("{}:out={:?}:verdict={}", head("silent-unwritable-output"), case.out, verdict.name()),
                        summary: format!("silent-unwritable-output: {what} exits 0 without generated.rs"),
                    });
                }
            } else if (r.exit == Some(0)) != (n_err == 0) {
                v.push(Viol {
                    key: format!("{}:exit={exit_class}:errors_reported={}:verdict={}",
                        head("exit-status"), if n_err > 0 { "some" } else { "0" }, verdict.name()),
                    summary: format!("exit-status: {what} exits {exit_s} with {n_err} error diagnostic(s) reported"),
                });
            }
        }
    }

    let mut effect_names: Vec<String> = effects.iter().map(|(p, c)| format!("{c:?} {}", role(case, p))).collect();
    effect_names.sort();
    Judgement { verdict, pre, effects, effect_names, errors_reported: n_err, panicked: panic, violations: v }
}
