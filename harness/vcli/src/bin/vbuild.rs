//! The build-script entry point of lelwel as its own process: `vbuild <grammar>` = `lelwel::build(<grammar>)`.
//! `build` reads the output directory from the OUT_DIR environment variable and exits with 1 on failure.
fn main() {
    let path = std::env::args().nth(1).expect("usage: vbuild <grammar>");
    lelwel::build(&path);
}
