//! Directory trees as values: materialise a tree on disk, snapshot it back, diff two snapshots.

use serde_json::{json, Value};
use std::collections::{BTreeMap, BTreeSet};
use std::os::unix::fs::{MetadataExt, PermissionsExt};
use std::path::Path;

#[derive(Clone, PartialEq, Eq, Debug)]
pub enum Node {
    File { bytes: Vec<u8>, mode: u32 },
    Dir { mode: u32 },
    Other,
}

/// Root-relative path -> node. A parent always sorts before its children.
pub type Tree = BTreeMap<String, Node>;
/// A tree plus the modification time (ns since the epoch) of every entry.
pub type Snap = BTreeMap<String, (Node, i128)>;

/// Every entry gets this mtime before an invocation, so any write by the tool is visible even when
/// the bytes stay the same (2001-09-09, far from "now").
pub const T0_SECS: i64 = 1_000_000_000;

pub fn file(bytes: &[u8]) -> Node {
    Node::File { bytes: bytes.to_vec(), mode: 0o644 }
}
pub fn dir() -> Node {
    Node::Dir { mode: 0o755 }
}

pub fn materialize(root: &Path, tree: &Tree) -> std::io::Result<()> {
    std::fs::create_dir_all(root)?;
    for (rel, node) in tree {
        let p = root.join(rel);
        match node {
            // with umask 022 a fresh directory is 755 and a fresh file 644; chmod only when needed
            Node::Dir { mode } => {
                std::fs::create_dir(&p)?;
                if *mode != 0o755 {
                    std::fs::set_permissions(&p, std::fs::Permissions::from_mode(*mode))?;
                }
            }
            Node::File { bytes, mode } => {
                std::fs::write(&p, bytes)?;
                if *mode != 0o644 {
                    std::fs::set_permissions(&p, std::fs::Permissions::from_mode(*mode))?;
                }
            }
            Node::Other => return Err(std::io::Error::other("cannot materialise a special file")),
        }
    }
    Ok(())
}

fn set_mtime(p: &Path) -> std::io::Result<()> {
    use std::os::unix::ffi::OsStrExt;
    let c = std::ffi::CString::new(p.as_os_str().as_bytes()).unwrap();
    let t = libc::timespec { tv_sec: T0_SECS, tv_nsec: 0 };
    let times = [t, t];
    // SAFETY: `c` is a valid NUL-terminated path and `times` points to two timespecs.
    let r = unsafe { libc::utimensat(libc::AT_FDCWD, c.as_ptr(), times.as_ptr(), libc::AT_SYMLINK_NOFOLLOW) };
    if r == 0 { Ok(()) } else { Err(std::io::Error::last_os_error()) }
}

/// Sets the mtime of every entry below `root` to T0 (children first does not matter: utimensat on a
/// child does not touch the parent's mtime).
pub fn normalize_mtimes(root: &Path) -> std::io::Result<()> {
    for e in std::fs::read_dir(root)? {
        let p = e?.path();
        if std::fs::symlink_metadata(&p)?.is_dir() {
            normalize_mtimes(&p)?;
        }
        set_mtime(&p)?;
    }
    Ok(())
}

pub fn snapshot(root: &Path) -> std::io::Result<Snap> {
    fn walk(root: &Path, rel: &str, out: &mut Snap) -> std::io::Result<()> {
        let here = if rel.is_empty() { root.to_path_buf() } else { root.join(rel) };
        for e in std::fs::read_dir(&here)? {
            let e = e?;
            let name = e.file_name().to_string_lossy().into_owned();
            let r = if rel.is_empty() { name } else { format!("{rel}/{name}") };
            let md = std::fs::symlink_metadata(e.path())?;
            let mtime = md.mtime() as i128 * 1_000_000_000 + md.mtime_nsec() as i128;
            let mode = md.mode() & 0o7777;
            if md.is_dir() {
                out.insert(r.clone(), (Node::Dir { mode }, mtime));
                walk(root, &r, out)?;
            } else if md.is_file() {
                out.insert(r, (Node::File { bytes: std::fs::read(e.path())?, mode }, mtime));
            } else {
                out.insert(r, (Node::Other, mtime));
            }
        }
        Ok(())
    }
    let mut s = Snap::new();
    walk(root, "", &mut s)?;
    Ok(s)
}

pub fn to_tree(s: &Snap) -> Tree {
    s.iter().map(|(k, (n, _))| (k.clone(), n.clone())).collect()
}

/// Canonical identity of a directory state: names, kinds, bytes, modes (mtimes are normalised to T0
/// before every invocation, so they carry no information between steps).
pub fn tree_hash(t: &Tree) -> String {
    let mut buf = Vec::new();
    for (k, n) in t {
        buf.extend_from_slice(k.as_bytes());
        match n {
            Node::File { bytes, mode } => {
                buf.extend_from_slice(format!("\0F{mode:o}:{}\0", bytes.len()).as_bytes());
                buf.extend_from_slice(bytes);
            }
            Node::Dir { mode } => buf.extend_from_slice(format!("\0D{mode:o}\0").as_bytes()),
            Node::Other => buf.extend_from_slice(b"\0O\0"),
        }
    }
    vcommon::content_hash(&buf)
}

#[derive(Clone, Copy, PartialEq, Eq, PartialOrd, Ord, Debug)]
pub enum Change {
    Created,
    Removed,
    /// kind, bytes or mode differ
    Modified,
    /// same bytes and mode, different mtime (rewritten with identical content, or touched)
    Touched,
    /// a directory's mtime changed although no direct child appeared or disappeared
    DirTouched,
}

pub type Effects = BTreeMap<String, Change>;

pub fn diff(before: &Snap, after: &Snap) -> Effects {
    let mut eff = Effects::new();
    let mut churned_dirs = BTreeSet::new(); // directories with a created/removed direct child
    let parent = |p: &str| p.rsplit_once('/').map(|(d, _)| d.to_string()).unwrap_or_default();
    for (p, (n, _)) in after {
        if !before.contains_key(p) {
            eff.insert(p.clone(), Change::Created);
            churned_dirs.insert(parent(p));
            let _ = n;
        }
    }
    for p in before.keys() {
        if !after.contains_key(p) {
            eff.insert(p.clone(), Change::Removed);
            churned_dirs.insert(parent(p));
        }
    }
    for (p, (n0, t0)) in before {
        let Some((n1, t1)) = after.get(p) else { continue };
        let is_dir = matches!(n0, Node::Dir { .. }) && matches!(n1, Node::Dir { .. });
        if n0 != n1 {
            eff.insert(p.clone(), Change::Modified);
        } else if t0 != t1 {
            if !is_dir {
                eff.insert(p.clone(), Change::Touched);
            } else if !churned_dirs.contains(p) {
                eff.insert(p.clone(), Change::DirTouched);
            }
        }
    }
    eff
}

// ---------- JSON (replay artefacts, samples) ----------

pub fn bytes_to_json(b: &[u8]) -> Value {
    match std::str::from_utf8(b) {
        Ok(s) => json!({ "text": s }),
        Err(_) => json!({ "hex": b.iter().map(|x| format!("{x:02x}")).collect::<String>() }),
    }
}

pub fn bytes_from_json(v: &Value) -> Option<Vec<u8>> {
    if let Some(s) = v["text"].as_str() {
        return Some(s.as_bytes().to_vec());
    }
    let h = v["hex"].as_str()?;
    (0..h.len() / 2).map(|i| u8::from_str_radix(h.get(2 * i..2 * i + 2)?, 16).ok()).collect()
}

pub fn tree_to_json(t: &Tree) -> Value {
    Value::Object(
        t.iter()
            .map(|(k, n)| {
                let v = match n {
                    Node::File { bytes, mode } => json!({"file": bytes_to_json(bytes), "mode": format!("{mode:o}")}),
                    Node::Dir { mode } => json!({"dir": true, "mode": format!("{mode:o}")}),
                    Node::Other => json!({"other": true}),
                };
                (k.clone(), v)
            })
            .collect(),
    )
}

pub fn tree_from_json(v: &Value) -> Option<Tree> {
    let mut t = Tree::new();
    for (k, n) in v.as_object()? {
        let mode = u32::from_str_radix(n["mode"].as_str().unwrap_or("644"), 8).ok()?;
        let node = if n.get("dir").is_some() {
            Node::Dir { mode }
        } else {
            Node::File { bytes: bytes_from_json(&n["file"])?, mode }
        };
        t.insert(k.clone(), node);
    }
    Some(t)
}

/// Short human-readable listing of a tree (for evidence samples): path, kind, size, content hash.
pub fn tree_listing(t: &Tree) -> Vec<String> {
    t.iter()
        .map(|(k, n)| match n {
            Node::File { bytes, mode } => {
                format!("{k} file {mode:o} {}B {}", bytes.len(), &vcommon::content_hash(bytes)[..8])
            }
            Node::Dir { mode } => format!("{k}/ dir {mode:o}"),
            Node::Other => format!("{k} special"),
        })
        .collect()
}
