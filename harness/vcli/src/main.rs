//! Engine D - property C19: explicit-state exploration of directory states under invocations of the real
//! `llw` binary and of `lelwel::build` (through the `vbuild` binary).
//!
//! 1. full product of entry x flags x output-dir kind x pre-existing skeletons x layout x sample grammar;
//! 2. BFS over sequences of invocations (with hand edits in between), states = canonical directory trees.
//! Everything is enumerated in a fixed order; nothing is sampled at random.

mod oracle;
mod run;
mod tree;

use oracle::*;
use rayon::prelude::*;
use run::*;
use serde_json::{json, Value};
use std::collections::{BTreeMap, BTreeSet};
use std::path::PathBuf;
use tree::*;

// ---------- sample grammars ----------

#[derive(Clone, Copy)]
enum Src {
    Text(&'static [u8]),
    Missing,
    Directory,
}

struct Sample {
    name: &'static str,
    class: Verdict,
    src: Src,
    thorough_only: bool,
}

const ACC_FORMATTED: &[u8] = b"token A='a' B='b';\nstart s;\ns: A b*;\nb: B;\n";
const ACC_UNFORMATTED: &[u8] = b"token   Num  = '<number>' ;  token Plus='+';\nstart   e ;\ne :   Num (  Plus   Num )* ;";
const WARN_UNUSED_TOKEN: &[u8] = b"token A='a' B='b';\nstart s;\ns: A;\n";
const WARN_EMPTY_RULE: &[u8] = b"token A='a';\nstart s;\ns: A x;\nx:;\n";
const SYN_PAREN: &[u8] = b"token A='a';\nstart s;\ns: A (;\n";
const SYN_SEMICOLONS: &[u8] = b"token A='a'\nstart s\ns: A;\n";
const SEM_UNDEFINED: &[u8] = b"token A='a';\nstart s;\ns: A t;\n";
// an error (E011) followed by a warning (W002 is reported by a later pass): the last diagnostic is not the error
const SEM_LL1: &[u8] = b"token A='a' B='b';\nstart s;\ns: A | A;\n";
const UTF8_BAD: &[u8] = b"token A=\xff\xfe;";
const UTF8_TAIL: &[u8] = b"token A='a' B='b';\nstart s;\ns: A b*;\nb: B;\n// \xc3\x28\n";

fn samples(thorough: bool) -> Vec<Sample> {
    use Verdict::*;
    let t = |name, class, text: &'static [u8], thorough_only| Sample { name, class, src: Src::Text(text), thorough_only };
    let all = vec![
        t("acc-formatted", Accepted, ACC_FORMATTED, false),
        t("acc-unformatted", Accepted, ACC_UNFORMATTED, false),
        t("warn-unused-token-W002", Warnings, WARN_UNUSED_TOKEN, false),
        t("warn-empty-rule-W005", Warnings, WARN_EMPTY_RULE, false),
        t("syn-unclosed-paren", Syntax, SYN_PAREN, false),
        t("syn-missing-semicolons", Syntax, SYN_SEMICOLONS, false),
        t("sem-undefined-rule-E003", Semantic, SEM_UNDEFINED, false),
        t("sem-ll1-conflict-E011", Semantic, SEM_LL1, false),
        Sample { name: "missing-file", class: Missing, src: Src::Missing, thorough_only: false },
        Sample { name: "directory", class: IsDir, src: Src::Directory, thorough_only: false },
        t("utf8-invalid", NotUtf8, UTF8_BAD, false),
        t("utf8-invalid-tail", NotUtf8, UTF8_TAIL, false),
        // thorough tier
        t("acc-pratt-calc", Accepted, include_bytes!("/repo/examples/calc/src/calc.llw"), true),
        t("acc-json", Accepted, include_bytes!("/repo/examples/json/src/json.llw"), true),
        t("acc-part-rule", Accepted, b"token A='a' B='b';\nstart s;\npart p;\ns: A p;\np: B A;\n", true),
        t("acc-ordered-choice", Accepted, b"token A='a' B='b' C='c';\nstart s;\ns: A B / A C;\n", true),
        t("sem-empty-file", Semantic, b"", true),
        t("warn-unused-rule", Warnings, b"token A='a';\nstart s;\ns: A;\nu: A;\n", true),
        t("warn-empty-rule-only", Warnings, b"start s;\ns:;\n", true),
        t("syn-garbage", Syntax, b"%%% not a grammar\n", true),
        t("syn-unterminated-string", Syntax, b"token A='a;\nstart s;\ns: A;\n", true),
        t("sem-no-start", Semantic, b"token A='a';\ns: A;\n", true),
        t("sem-redefinition", Semantic, b"token A='a';\nstart s;\ns: A;\ns: A;\n", true),
        t("sem-warning-and-error", Semantic, b"token A='a' B='b';\nstart s;\ns: A t;\n", true),
    ];
    all.into_iter().filter(|s| thorough || !s.thorough_only).collect()
}

const LEXER_SENTINEL: &[u8] = b"// hand-edited lexer, do not touch\n";
const PARSER_SENTINEL: &[u8] = b"// hand-edited parser callbacks, do not touch\n";

fn init_tree(src: Src, lexer: bool, parser: bool) -> Tree {
    let mut t = Tree::new();
    for d in ["cwd", "g", "out"] {
        t.insert(d.into(), dir());
        t.insert(format!("{d}/keep.txt"), file(b"bystander\n"));
    }
    t.insert("outfile".into(), file(b"a regular file where a directory is expected\n"));
    match src {
        Src::Text(b) => drop(t.insert(GRAMMAR.into(), file(b))),
        Src::Directory => drop(t.insert(GRAMMAR.into(), dir())),
        Src::Missing => {}
    }
    if lexer {
        t.insert("g/lexer.rs".into(), file(LEXER_SENTINEL));
    }
    if parser {
        t.insert("g/parser.rs".into(), file(PARSER_SENTINEL));
    }
    t
}

/// `lelwel::build` plus llw with check x format x graph x verbose {0,1,2} x short; `reduced` keeps only
/// verbose 0 / short off (the flags that do not select what is written).
fn all_invocations(reduced: bool) -> Vec<(Entry, Flags)> {
    let mut v = vec![(Entry::Vbuild, Flags::default())];
    for c in [false, true] {
        for f in [false, true] {
            for g in [false, true] {
                for verb in 0..3u8 {
                    for s in [false, true] {
                        if !reduced || (verb == 0 && !s) {
                            v.push((Entry::Llw, Flags { c, f, g, v: verb, s }));
                        }
                    }
                }
            }
        }
    }
    v
}

#[derive(Clone, Copy, PartialEq, Debug)]
enum Which {
    /// one grammar per readable verdict class plus the three unreadable kinds
    OnePerClass,
    Quick,
    All,
}

/// The blocks of the product: (layout, all flag combinations?, which sample grammars). The first block is
/// the table of the property; the others repeat its mode-selecting part with other path spellings.
fn blocks(thorough: bool) -> Vec<(Layout, bool, Which)> {
    if thorough {
        vec![(Layout::Sep, true, Which::All), (Layout::Same, false, Which::All), (Layout::SepRel, false, Which::All)]
    } else {
        vec![(Layout::Sep, true, Which::Quick), (Layout::Same, false, Which::OnePerClass)]
    }
}

fn block_samples(w: Which) -> Vec<Sample> {
    let one = ["acc-unformatted", "warn-unused-token-W002", "syn-unclosed-paren", "sem-undefined-rule-E003", "missing-file", "directory", "utf8-invalid"];
    samples(w == Which::All).into_iter().filter(|s| w != Which::OnePerClass || one.contains(&s.name)).collect()
}

/// (case, sample name) for every point of the product.
fn product(thorough: bool) -> Vec<(Case, String)> {
    let mut cases = vec![];
    for (layout, full_flags, which) in blocks(thorough) {
        for s in block_samples(which) {
            for (lexer, parser) in [(false, false), (true, false), (false, true), (true, true)] {
                for out in [OutKind::Default, OutKind::Other, OutKind::Missing, OutKind::File] {
                    for (entry, flags) in all_invocations(!full_flags) {
                        let steps = vec![Step { edits: vec![], entry, flags }];
                        cases.push((Case { init: init_tree(s.src, lexer, parser), layout, out, steps }, s.name.to_string()));
                    }
                }
            }
        }
    }
    cases
}

/// Reduced alphabet of the sequence exploration: hand edits followed by one invocation.
fn alphabet(thorough: bool) -> Vec<(&'static str, Step)> {
    let fl = |c, f, g| Flags { c, f, g, v: 0, s: true };
    let st = |edits: Vec<Edit>, entry, flags| Step { edits, entry, flags };
    let set = |b: &[u8]| vec![Edit::Write(GRAMMAR.into(), b.to_vec())];
    let (gen, check) = (fl(false, false, false), fl(true, false, false));
    let mut a = vec![
        ("generate", st(vec![], Entry::Llw, gen)),
        ("generate -g", st(vec![], Entry::Llw, fl(false, false, true))),
        ("check", st(vec![], Entry::Llw, check)),
        ("check -g", st(vec![], Entry::Llw, fl(true, false, true))),
        ("format", st(vec![], Entry::Llw, fl(false, true, false))),
        ("format-check", st(vec![], Entry::Llw, fl(true, true, false))),
        ("build", st(vec![], Entry::Vbuild, Flags::default())),
        ("grammar:=warnings; generate", st(set(WARN_UNUSED_TOKEN), Entry::Llw, gen)),
        ("grammar:=syntax-error; generate", st(set(SYN_PAREN), Entry::Llw, gen)),
        ("grammar:=semantic-error; generate", st(set(SEM_UNDEFINED), Entry::Llw, gen)),
        ("grammar:=other-accepted; generate", st(set(ACC_FORMATTED), Entry::Llw, gen)),
        ("grammar:=invalid-utf8; generate", st(set(UTF8_BAD), Entry::Llw, gen)),
        ("grammar:=syntax-error; check", st(set(SYN_PAREN), Entry::Llw, check)),
        ("hand-edit lexer.rs; generate", st(vec![Edit::Write("g/lexer.rs".into(), LEXER_SENTINEL.to_vec())], Entry::Llw, gen)),
        ("delete parser.rs; generate", st(vec![Edit::Remove("g/parser.rs".into())], Entry::Llw, gen)),
        ("delete lexer.rs and parser.rs; build",
            st(vec![Edit::Remove("g/lexer.rs".into()), Edit::Remove("g/parser.rs".into())], Entry::Vbuild, Flags::default())),
    ];
    if thorough {
        a.push(("grammar:=empty-rule; generate -g", st(set(WARN_EMPTY_RULE), Entry::Llw, fl(false, false, true))));
        a.push(("delete grammar; generate", st(vec![Edit::Remove(GRAMMAR.into())], Entry::Llw, gen)));
        a.push(("generate -vv", st(vec![], Entry::Llw, Flags { v: 2, ..Flags::default() })));
    }
    a
}

// ---------- bookkeeping ----------

struct Found {
    key: String,
    summary: String,
    replay: Value,
}

#[derive(Default)]
struct Stats {
    transitions: u64,
    nontrivial: u64,
    states: BTreeSet<String>,
    outcomes: BTreeMap<String, u64>,
    verdicts: BTreeMap<&'static str, u64>,
    panics: BTreeMap<String, u64>,
    samples: Vec<Value>,
    found: Vec<Found>,
}

/// The result of one executed and judged step, small enough to collect from the parallel map.
struct Judged {
    j: Judgement,
    before_hash: String,
    after: Tree,
    after_hash: String,
    exit: Option<i32>,
    sample: Value,
    panic_note: Option<String>,
}

fn judge_steps(case: &Case, label: &str, results: &[StepResult]) -> Vec<Judged> {
    results
        .iter()
        .enumerate()
        .map(|(i, r)| {
            let j = judge(case, i, r);
            let after = to_tree(&r.after);
            let panic_note = j.panicked.then(|| {
                let loc = r.stderr.lines().find(|l| l.contains("panicked at")).unwrap_or("exit 101");
                let loc = loc.split("panicked at").nth(1).unwrap_or(loc).trim().trim_end_matches(':');
                let entry = if case.steps[i].entry == Entry::Llw { "llw" } else { "vbuild" };
                format!("{entry} {} on {} grammar: panicked at {loc}", case.steps[i].flags.mode_str(), j.verdict.name())
            });
            let sample = json!({
                "grammar": label, "command": r.argv.join(" "), "layout": format!("{:?}", case.layout),
                "output_dir": format!("{:?}", case.out), "verdict": j.verdict.name(), "preexisting": j.pre,
                "state_before": tree_listing(&to_tree(&r.before)), "effects": j.effect_names,
                "exit": r.exit, "error_diagnostics_on_stderr": j.errors_reported, "stdout_bytes": r.stdout.len(),
                "violations": j.violations.iter().map(|v| v.key.clone()).collect::<Vec<_>>(),
            });
            Judged { before_hash: tree_hash(&to_tree(&r.before)), after_hash: tree_hash(&after), after, exit: r.exit, sample, panic_note, j }
        })
        .collect()
}

impl Stats {
    fn record(&mut self, jd: &Judged, replay: &dyn Fn() -> Value) {
        self.transitions += 1;
        self.states.insert(jd.before_hash.clone());
        self.states.insert(jd.after_hash.clone());
        if !jd.j.effects.is_empty() || jd.j.verdict != Verdict::Accepted {
            self.nontrivial += 1;
        }
        let outcome = format!("exit={:?} effects=[{}]", jd.exit, jd.j.effect_names.join(", "));
        let n = self.outcomes.entry(outcome).or_insert(0);
        *n += 1;
        if *n == 1 && self.samples.len() < 12 {
            self.samples.push(jd.sample.clone()); // first representative of each new outcome class
        }
        *self.verdicts.entry(jd.j.verdict.name()).or_insert(0) += 1;
        if let Some(p) = &jd.panic_note {
            *self.panics.entry(p.clone()).or_insert(0) += 1;
        }
        for v in &jd.j.violations {
            let first = !self.found.iter().any(|f| f.key == v.key);
            self.found.push(Found {
                key: v.key.clone(),
                summary: v.summary.clone(),
                replay: if first { replay() } else { Value::Null },
            });
        }
    }
}

struct Ctx {
    bins: Bins,
    work: PathBuf,
}

impl Ctx {
    fn fail(&self, msg: &str) -> ! {
        let _ = std::fs::remove_dir_all(&self.work);
        vcommon::machinery_failure(msg)
    }
    /// Runs all cases in parallel (one fresh directory tree each), results in input order.
    fn run_all(&self, tag: &str, cases: &[(Case, String)]) -> Vec<Vec<Judged>> {
        let res: Vec<Result<Vec<Judged>, RunError>> = cases
            .par_iter()
            .enumerate()
            .map(|(i, (case, label))| {
                let results = run_case(case, &self.bins, &self.work.join(format!("{tag}-{i}")))?;
                Ok(judge_steps(case, label, &results))
            })
            .collect();
        res.into_iter()
            .map(|r| match r {
                Ok(v) => v,
                Err(RunError::Timeout(c)) => self.fail(&format!("invocation did not terminate within {TIMEOUT:?}: {c}")),
                Err(RunError::Io(e)) => self.fail(&format!("scratch directory handling failed: {e}")),
            })
            .collect()
    }
}

/// BFS over invocation sequences from `roots`; returns (distinct states, states per depth).
fn bfs(ctx: &Ctx, stats: &mut Stats, layout: Layout, out: OutKind, depth: usize, thorough: bool) -> (usize, Vec<usize>) {
    let alpha = alphabet(thorough);
    let roots = [init_tree(Src::Text(ACC_UNFORMATTED), false, false), init_tree(Src::Text(ACC_UNFORMATTED), true, true)];
    // a state: its tree, and how it was reached (root index, action indexes)
    let mut frontier: Vec<(Tree, usize, Vec<usize>)> = roots.iter().cloned().enumerate().map(|(i, t)| (t, i, vec![])).collect();
    let mut seen: BTreeSet<String> = roots.iter().map(tree_hash).collect();
    let mut per_depth = vec![frontier.len()];
    for d in 0..depth {
        let mut jobs = vec![];
        for (si, (tree, _, _)) in frontier.iter().enumerate() {
            for (ai, (name, step)) in alpha.iter().enumerate() {
                let case = Case { init: tree.clone(), layout, out, steps: vec![step.clone()] };
                jobs.push(((case, format!("sequence step: {name}")), si, ai));
            }
        }
        let cases: Vec<(Case, String)> = jobs.iter().map(|j| j.0.clone()).collect();
        let judged = ctx.run_all(&format!("bfs{d}"), &cases);
        let mut next = vec![];
        for ((_, si, ai), jds) in jobs.iter().zip(judged) {
            let jd = &jds[0];
            let (_, root, path) = &frontier[*si];
            let mut full = path.clone();
            full.push(*ai);
            let replay = || {
                let steps = full.iter().map(|&a| alpha[a].1.clone()).collect();
                let mut v = case_to_json(&Case { init: roots[*root].clone(), layout, out, steps });
                v["sequence"] = json!(full.iter().map(|&a| alpha[a].0).collect::<Vec<_>>());
                v
            };
            stats.record(jd, &replay);
            if seen.insert(jd.after_hash.clone()) {
                next.push((jd.after.clone(), *root, full.clone()));
            }
        }
        per_depth.push(next.len());
        frontier = next;
    }
    (seen.len(), per_depth)
}

fn replay(ctx: &Ctx, path: &str) -> i32 {
    let text = std::fs::read_to_string(path).unwrap_or_else(|e| ctx.fail(&format!("cannot read {path}: {e}")));
    let body: Value = serde_json::from_str(&text).unwrap_or_else(|e| ctx.fail(&format!("{path}: {e}")));
    let want = body["key"].as_str().unwrap_or("").to_string();
    let case = case_from_json(&body["replay"]).unwrap_or_else(|| ctx.fail(&format!("{path}: not a C19 replay artefact")));
    let judged = ctx.run_all("replay", &[(case, "replay".into())]).remove(0);
    let mut hit = false;
    for (i, jd) in judged.iter().enumerate() {
        println!("step {i}: {} -> exit {:?}, effects {:?}", jd.sample["command"], jd.exit, jd.j.effect_names);
        for v in &jd.j.violations {
            println!("# {}\n#   key={}{}", v.summary, v.key, if v.key == want { "   <- the recorded violation" } else { "" });
            hit = true;
        }
    }
    let _ = std::fs::remove_dir_all(&ctx.work);
    if hit {
        println!("VIOLATION property=C19 replay={path}");
        1
    } else {
        println!("C19 replay: no violation any more ({path})");
        0
    }
}

fn main() {
    let args: Vec<String> = std::env::args().collect();
    if args.get(1).map(String::as_str) != Some("C19") {
        vcommon::machinery_failure("usage: vcli C19 [--tier quick|thorough] [--replay <path>]");
    }
    // SAFETY: umask only sets the process file mode creation mask.
    unsafe { libc::umask(0o022) };
    let llw = PathBuf::from(std::env::var("VERIF_LLW").unwrap_or_else(|_| vcommon::machinery_failure("VERIF_LLW is not set (run through /verif/check)")));
    let vbuild = std::env::current_exe().ok().and_then(|p| Some(p.parent()?.join("vbuild"))).unwrap_or_default();
    for b in [&llw, &vbuild] {
        if !b.is_file() {
            vcommon::machinery_failure(&format!("binary {} does not exist", b.display()));
        }
    }
    let ctx = Ctx { bins: Bins { llw, vbuild }, work: vcommon::scratch_dir(&format!("c19-{}", std::process::id())) };
    if let Some(i) = args.iter().position(|a| a == "--replay") {
        let path = args.get(i + 1).cloned().unwrap_or_else(|| ctx.fail("--replay needs a path"));
        std::process::exit(replay(&ctx, &path));
    }

    let mut rep = vcommon::Report::new("C19");
    let thorough = rep.is_thorough();
    // the sample grammars must be what they claim to be, otherwise the table is vacuous
    let mut wrong = vec![];
    for s in samples(true) {
        if let Src::Text(b) = s.src {
            let got = std::str::from_utf8(b).map(classify_source).unwrap_or(Verdict::NotUtf8);
            if got != s.class {
                wrong.push(format!("{} is {} but declared {}", s.name, got.name(), s.class.name()));
            }
        }
    }
    if !wrong.is_empty() {
        ctx.fail(&format!("sample grammars are not what they claim: {}", wrong.join("; ")));
    }
    let mut stats = Stats::default();

    // 1. full product
    let cases = product(thorough);
    let n_product = cases.len();
    for ((case, _), jds) in cases.iter().zip(ctx.run_all("p", &cases)) {
        stats.record(&jds[0], &|| case_to_json(case));
    }
    let t_product = rep.elapsed();

    // 2. sequences
    let depth = if thorough { 3 } else { 2 };
    let mut bfs_runs = vec![(Layout::Sep, OutKind::Other, depth)];
    if thorough {
        bfs_runs.push((Layout::Same, OutKind::Default, 2)); // all three directories coincide
    }
    let mut bfs_cov = vec![];
    for (layout, out, depth) in bfs_runs {
        let before = stats.transitions;
        let (n, per_depth) = bfs(&ctx, &mut stats, layout, out, depth, thorough);
        bfs_cov.push(json!({"layout": format!("{layout:?}"), "output_dir": format!("{out:?}"), "depth": depth,
            "alphabet": alphabet(thorough).iter().map(|a| a.0).collect::<Vec<_>>(), "roots": 2,
            "distinct_states": n, "new_states_per_depth": per_depth, "transitions": stats.transitions - before}));
    }
    let _ = std::fs::remove_dir_all(&ctx.work);

    // violations, one replay artefact per key; every occurrence of a listed key is counted
    let mut by_key: BTreeMap<String, (u64, usize)> = BTreeMap::new();
    for (i, f) in stats.found.iter().enumerate() {
        by_key.entry(f.key.clone()).or_insert((0, i)).0 += 1;
    }
    let known: BTreeSet<String> = vcommon::load_known_findings("C19").into_iter().map(|k| k.key).collect();
    let mut order: Vec<(&String, &(u64, usize))> = by_key.iter().collect();
    order.sort_by_key(|(_, (_, first))| *first);
    for (key, (n, first)) in order {
        let f = &stats.found[*first];
        let v = || vcommon::Violation {
            key: key.clone(),
            summary: format!("{} [{n} invocation(s) with this key] key={key}", f.summary),
            replay: f.replay.clone(),
        };
        rep.violation(v());
        if known.contains(key) {
            for _ in 1..*n {
                rep.violation(v());
            }
        }
    }
    rep.assumptions = vec![
        "the sandbox runs as root, so a read-only output directory is still writable; that file state is replaced by 'output path is missing' and 'output path is a regular file'".into(),
        "all mtimes are reset to 2001-09-09 before every invocation, so a rewrite with identical bytes is still seen; consequently mtimes carry no information from one step of a sequence to the next".into(),
        "children run with an empty environment plus NO_COLOR=1 and RUST_BACKTRACE=0 (and OUT_DIR for lelwel::build), umask 022".into(),
        "`-f` without `-c`: only the grammar file may change and the exit status is not judged; `-f -c` is judged as check mode for file effects only (its exit status reports formatting differences)".into(),
        "output directory missing / a regular file with an error-free grammar in generate mode: only 'exit status non-zero or generated.rs exists' and 'nothing unpromised is written' are demanded".into(),
        "a panic is recorded in panics_observed; it is a violation only through a broken file-effect or exit-status promise".into(),
    ];
    let coverage = json!({
        "states": stats.states.len(),
        "transitions": stats.transitions,
        "traces_validated_against_impl": stats.transitions,
        "evaluations": stats.transitions,
        "distinct_nontrivial": stats.nontrivial,
        "distinct_outcomes": stats.outcomes.len(),
        "exhaustive": true,
        "rule": "states = distinct canonical directory trees (names, kinds, bytes, modes of <root>/{cwd,g,out,outfile,...}) seen before or after an invocation; \
transitions = invocations of the real llw binary / lelwel::build executed, each judged by the oracle against a before/after snapshot (names, bytes, mode, mtime ns). \
Product: per block (see bounds.product_blocks) layout x sample grammar x pre-existing {none, lexer.rs, parser.rs, both} x output dir {default=cwd, other, missing, regular file} x ({lelwel::build} + llw with check x format x graph x verbose{0,1,2} x short; blocks with all_flags=false keep verbose 0 / short off only), fixed nested-loop order. \
Sequences: BFS from 2 roots (no skeletons / both skeletons) over the listed alphabet, every action from every distinct state, deduplicated by canonical tree. \
Non-trivial = the invocation changed at least one file or directory entry, or the grammar verdict was not 'accepted'.",
        "bounds": {"tier": rep.tier, "product_invocations": n_product, "sample_grammars": samples(thorough).iter().map(|s| s.name).collect::<Vec<_>>(),
            "product_blocks": blocks(thorough).iter().map(|(l, f, w)| json!({"layout": format!("{l:?}"), "all_flags": f,
                "samples": block_samples(*w).len(), "invocations": block_samples(*w).len() * 16 * all_invocations(!f).len()})).collect::<Vec<_>>(), "sequence_depth": depth, "timeout_s": TIMEOUT.as_secs(), "product_wall_s": t_product},
        "worker_seconds_by_phase": {
            "set_up_tree": PHASE_NS[0].load(std::sync::atomic::Ordering::Relaxed) as f64 / 1e9,
            "snapshots": PHASE_NS[1].load(std::sync::atomic::Ordering::Relaxed) as f64 / 1e9,
            "child_process": PHASE_NS[2].load(std::sync::atomic::Ordering::Relaxed) as f64 / 1e9,
            "clean_up": PHASE_NS[3].load(std::sync::atomic::Ordering::Relaxed) as f64 / 1e9},
        "sequences": bfs_cov,
        "invocations_per_verdict": stats.verdicts,
        "outcome_classes": stats.outcomes,
        "samples": stats.samples,
        "panics_observed": stats.panics.iter().map(|(k, n)| format!("{k} [{n}x]")).collect::<Vec<_>>(),
        "violation_keys": by_key.iter().map(|(k, (n, _))| json!({"key": k, "count": n})).collect::<Vec<_>>(),
    });
    std::process::exit(rep.finish(coverage));
}
