//! A case = initial directory tree + a sequence of steps (optional hand edits, then one invocation of a
//! real binary). Running a case materialises the tree in a fresh directory and records, per step,
//! the snapshot before and after, the exit status and the captured output.

use crate::tree::*;
use serde_json::{json, Value};
use std::path::{Path, PathBuf};
use std::process::{Command, Stdio};
use std::collections::BTreeMap;
use std::sync::atomic::{AtomicU64, Ordering};
use std::sync::Mutex;
use std::time::{Duration, Instant};

pub const TIMEOUT: Duration = Duration::from_secs(20);

/// Wall time summed over all worker threads, in ns: [set up tree, snapshots, child process, clean up].
pub static PHASE_NS: [AtomicU64; 4] = [AtomicU64::new(0), AtomicU64::new(0), AtomicU64::new(0), AtomicU64::new(0)];

fn timed<T>(phase: usize, f: impl FnOnce() -> T) -> T {
    let t = Instant::now();
    let r = f();
    PHASE_NS[phase].fetch_add(t.elapsed().as_nanos() as u64, Ordering::Relaxed);
    r
}
pub const GRAMMAR: &str = "g/grammar.llw";

#[derive(Clone, Copy, PartialEq, Eq, Debug)]
pub enum Entry {
    Llw,
    Vbuild,
}

#[derive(Clone, Copy, PartialEq, Eq, Debug, Default)]
pub struct Flags {
    pub c: bool,
    pub f: bool,
    pub g: bool,
    pub v: u8,
    pub s: bool,
}

impl Flags {
    pub fn args(&self) -> Vec<String> {
        let mut a = vec![];
        for (on, s) in [(self.c, "-c"), (self.f, "-f"), (self.g, "-g"), (self.s, "-s")] {
            if on {
                a.push(s.to_string());
            }
        }
        (0..self.v).for_each(|_| a.push("-v".into()));
        a
    }
    /// Only the flags that select what the tool promises to write.
    pub fn mode_str(&self) -> String {
        let v: Vec<&str> =
            [(self.c, "-c"), (self.f, "-f"), (self.g, "-g")].iter().filter(|x| x.0).map(|x| x.1).collect();
        if v.is_empty() { "(none)".into() } else { v.join(" ") }
    }
}

/// Where the process runs relative to the grammar and how the paths are spelled.
#[derive(Clone, Copy, PartialEq, Eq, Debug)]
pub enum Layout {
    /// cwd = <root>/cwd, grammar and -o given as absolute paths
    Sep,
    /// cwd = grammar directory, grammar given as `grammar.llw`
    Same,
    /// cwd = <root>/cwd, grammar given as `../g/grammar.llw`, -o as `../<dir>`
    SepRel,
}

#[derive(Clone, Copy, PartialEq, Eq, Debug)]
pub enum OutKind {
    /// no -o (llw default `.`), OUT_DIR=. for vbuild: the output directory is the cwd
    Default,
    /// an existing directory <root>/out
    Other,
    /// <root>/nope, which does not exist
    Missing,
    /// <root>/outfile, a regular file
    File,
}

#[derive(Clone, Debug)]
pub enum Edit {
    Write(String, Vec<u8>),
    Remove(String),
}

#[derive(Clone, Debug)]
pub struct Step {
    /// hand edits applied before the invocation (the "user" between two tool runs)
    pub edits: Vec<Edit>,
    pub entry: Entry,
    pub flags: Flags,
}

#[derive(Clone, Debug)]
pub struct Case {
    pub init: Tree,
    pub layout: Layout,
    pub out: OutKind,
    pub steps: Vec<Step>,
}

impl Case {
    pub fn cwd_rel(&self) -> &'static str {
        if self.layout == Layout::Same { "g" } else { "cwd" }
    }
    pub fn out_rel(&self) -> &'static str {
        match self.out {
            OutKind::Default => self.cwd_rel(),
            OutKind::Other => "out",
            OutKind::Missing => "nope",
            OutKind::File => "outfile",
        }
    }
    fn path_arg(&self, root: &Path, rel: &str) -> String {
        match self.layout {
            Layout::Sep => root.join(rel).to_string_lossy().into_owned(),
            Layout::SepRel => format!("../{rel}"),
            Layout::Same => match rel.strip_prefix("g/") {
                Some(r) => r.to_string(),
                None => format!("../{rel}"),
            },
        }
    }
    /// argv (without the program) and extra environment of step `i`.
    pub fn command_line(&self, root: &Path, i: usize) -> (Vec<String>, Vec<(String, String)>) {
        let st = &self.steps[i];
        let input = self.path_arg(root, GRAMMAR);
        let out = (self.out != OutKind::Default).then(|| self.path_arg(root, self.out_rel()));
        match st.entry {
            Entry::Llw => {
                let mut a = st.flags.args();
                if let Some(o) = out {
                    a.push("-o".into());
                    a.push(o);
                }
                a.push(input);
                (a, vec![])
            }
            Entry::Vbuild => (vec![input], vec![("OUT_DIR".into(), out.unwrap_or(".".into()))]),
        }
    }
}

pub struct StepResult {
    pub before: Snap,
    pub after: Snap,
    /// exit code, None when killed by a signal
    pub exit: Option<i32>,
    pub stdout: String,
    pub stderr: String,
    pub argv: Vec<String>,
}

pub struct Bins {
    pub llw: PathBuf,
    pub vbuild: PathBuf,
}

#[derive(Debug)]
pub enum RunError {
    Timeout(String),
    Io(String),
}

/// Children currently running: pid -> (deadline, killed by the watchdog).
static RUNNING: Mutex<BTreeMap<u32, (Instant, bool)>> = Mutex::new(BTreeMap::new());

/// Blocking wait; a single watchdog thread kills children that pass their deadline. Returns None for a
/// child that had to be killed. (No polling: with 16 workers a poll loop costs more than the children.)
fn wait_with_deadline(child: &mut std::process::Child) -> std::io::Result<Option<std::process::ExitStatus>> {
    static WATCHDOG: std::sync::Once = std::sync::Once::new();
    WATCHDOG.call_once(|| {
        std::thread::spawn(|| loop {
            std::thread::sleep(Duration::from_millis(250));
            for (pid, (deadline, killed)) in RUNNING.lock().unwrap().iter_mut() {
                if !*killed && Instant::now() > *deadline {
                    // SAFETY: the pid is still registered, i.e. not yet reaped, so it cannot have been reused.
                    unsafe { libc::kill(*pid as i32, libc::SIGKILL) };
                    *killed = true;
                }
            }
        });
    });
    RUNNING.lock().unwrap().insert(child.id(), (Instant::now() + TIMEOUT, false));
    let status = child.wait();
    let killed = RUNNING.lock().unwrap().remove(&child.id()).is_some_and(|e| e.1);
    Ok(if killed { None } else { Some(status?) })
}

fn apply_edits(root: &Path, edits: &[Edit]) -> std::io::Result<()> {
    for e in edits {
        match e {
            Edit::Write(p, b) => std::fs::write(root.join(p), b)?,
            Edit::Remove(p) => match std::fs::remove_file(root.join(p)) {
                Err(e) if e.kind() != std::io::ErrorKind::NotFound => return Err(e),
                _ => {}
            },
        }
    }
    Ok(())
}

/// Runs all steps of `case` in `<work>/t`; `<work>` is removed afterwards.
pub fn run_case(case: &Case, bins: &Bins, work: &Path) -> Result<Vec<StepResult>, RunError> {
    let res = run_case_inner(case, bins, work);
    timed(3, || {
        let _ = std::fs::remove_dir_all(work);
    });
    res
}

fn run_case_inner(case: &Case, bins: &Bins, work: &Path) -> Result<Vec<StepResult>, RunError> {
    let io = |e: std::io::Error| RunError::Io(format!("{}: {e}", work.display()));
    let root = work.join("t");
    let logs = work.join("io");
    std::fs::create_dir_all(&logs).map_err(io)?;
    timed(0, || materialize(&root, &case.init)).map_err(io)?;
    let mut results = vec![];
    for (i, st) in case.steps.iter().enumerate() {
        apply_edits(&root, &st.edits).map_err(io)?;
        timed(0, || normalize_mtimes(&root)).map_err(io)?;
        let before = timed(1, || snapshot(&root)).map_err(io)?;
        let t_child = Instant::now();
        let (args, env) = case.command_line(&root, i);
        let prog = if st.entry == Entry::Llw { &bins.llw } else { &bins.vbuild };
        let (so, se) = (logs.join("stdout"), logs.join("stderr"));
        let mut child = Command::new(prog)
            .args(&args)
            .current_dir(root.join(case.cwd_rel()))
            .env_clear()
            .env("NO_COLOR", "1")
            .env("RUST_BACKTRACE", "0")
            .envs(env.iter().cloned())
            .stdin(Stdio::null())
            .stdout(std::fs::File::create(&so).map_err(io)?)
            .stderr(std::fs::File::create(&se).map_err(io)?)
            .spawn()
            .map_err(io)?;
        let status = wait_with_deadline(&mut child).map_err(io)?;
        let Some(status) = status else {
            return Err(RunError::Timeout(format!("{} {}", prog.display(), args.join(" "))));
        };
        PHASE_NS[2].fetch_add(t_child.elapsed().as_nanos() as u64, Ordering::Relaxed);
        let after = timed(1, || snapshot(&root)).map_err(io)?;
        let mut argv = vec![if st.entry == Entry::Llw { "llw".to_string() } else { "vbuild".to_string() }];
        argv.extend(args.iter().map(|a| a.replace(&*root.to_string_lossy(), "<root>")));
        if let Some((k, v)) = env.first() {
            argv.insert(0, format!("{k}={}", v.replace(&*root.to_string_lossy(), "<root>")));
        }
        results.push(StepResult {
            before,
            after,
            exit: status.code(),
            stdout: String::from_utf8_lossy(&std::fs::read(&so).map_err(io)?).into_owned(),
            stderr: String::from_utf8_lossy(&std::fs::read(&se).map_err(io)?).into_owned(),
            argv,
        });
    }
    Ok(results)
}

// ---------- JSON ----------

fn name<T: std::fmt::Debug>(x: T) -> String {
    format!("{x:?}")
}

pub fn case_to_json(c: &Case) -> Value {
    let steps: Vec<Value> = c
        .steps
        .iter()
        .map(|s| {
            let edits: Vec<Value> = s
                .edits
                .iter()
                .map(|e| match e {
                    Edit::Write(p, b) => json!({"write": p, "content": bytes_to_json(b)}),
                    Edit::Remove(p) => json!({"remove": p}),
                })
                .collect();
            json!({"edits": edits, "entry": name(s.entry),
                   "flags": {"c": s.flags.c, "f": s.flags.f, "g": s.flags.g, "v": s.flags.v, "s": s.flags.s}})
        })
        .collect();
    json!({"layout": name(c.layout), "out": name(c.out), "init": tree_to_json(&c.init), "steps": steps})
}

pub fn case_from_json(v: &Value) -> Option<Case> {
    let layout = [Layout::Sep, Layout::Same, Layout::SepRel].into_iter().find(|l| name(l) == v["layout"])?;
    let out = [OutKind::Default, OutKind::Other, OutKind::Missing, OutKind::File]
        .into_iter()
        .find(|o| name(o) == v["out"])?;
    let mut steps = vec![];
    for s in v["steps"].as_array()? {
        let mut edits = vec![];
        for e in s["edits"].as_array()? {
            edits.push(match e["write"].as_str() {
                Some(p) => Edit::Write(p.to_string(), bytes_from_json(&e["content"])?),
                None => Edit::Remove(e["remove"].as_str()?.to_string()),
            });
        }
        let f = &s["flags"];
        let b = |k: &str| f[k].as_bool().unwrap_or(false);
        steps.push(Step {
            edits,
            entry: if s["entry"] == "Vbuild" { Entry::Vbuild } else { Entry::Llw },
            flags: Flags { c: b("c"), f: b("f"), g: b("g"), v: f["v"].as_u64().unwrap_or(0) as u8, s: b("s") },
        });
    }
    Some(Case { init: tree_from_json(&v["init"])?, layout, out, steps })
}
