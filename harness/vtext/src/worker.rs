//! Worker subprocess: evaluates its share of the work units, one JSON line per finished unit.
//!
//! A stack overflow or abort inside lelwel kills the process; to attribute it, the worker stores
//! (unit, index) of the case it is about to run in a shared file mapping, which survives the death
//! of the process.  A watchdog thread turns a case that burns more than `HANG_CPU_SECS` of CPU time
//! into exit code `EXIT_HANG`.

use crate::families::{plan, Block, Ctx};
use crate::oracle::{self, Cli, Eval};
use serde_json::{json, Value};
use std::collections::{BTreeMap, HashSet};
use std::hash::{Hash, Hasher};
use std::io::Write;
use std::path::{Path, PathBuf};
use std::sync::atomic::{AtomicU64, Ordering};

pub const EXIT_HANG: i32 = 97;
pub const HANG_CPU_SECS: f64 = 20.0;
/// same stack as the main thread of the real `llw`
pub const STACK_BYTES: usize = 8 << 20;

/// incremented before every case; read by the watchdog
static CASE_SEQ: AtomicU64 = AtomicU64::new(0);

pub struct Progress(*mut u64);
unsafe impl Send for Progress {}

impl Progress {
    pub fn open(path: &Path) -> Result<Progress, String> {
        use std::os::unix::io::AsRawFd;
        let f = std::fs::OpenOptions::new()
            .read(true)
            .write(true)
            .create(true)
            .truncate(false)
            .open(path)
            .map_err(|e| format!("{}: {e}", path.display()))?;
        f.set_len(16).map_err(|e| e.to_string())?;
        let p = unsafe {
            libc::mmap(std::ptr::null_mut(), 16, libc::PROT_READ | libc::PROT_WRITE, libc::MAP_SHARED, f.as_raw_fd(), 0)
        };
        if p == libc::MAP_FAILED {
            return Err("mmap of the progress file failed".into());
        }
        Ok(Progress(p as *mut u64))
    }
    fn set(&self, unit: u64, index: u64) {
        unsafe {
            self.0.write_volatile(unit);
            self.0.add(1).write_volatile(index);
        }
    }
    /// (unit, index) last stored by a (possibly dead) worker
    pub fn read(path: &Path) -> Option<(u64, u64)> {
        let b = std::fs::read(path).ok()?;
        let w = |i: usize| Some(u64::from_ne_bytes(b.get(i..i + 8)?.try_into().ok()?));
        Some((w(0)?, w(8)?))
    }
}

fn cpu_secs(clock: libc::clockid_t) -> f64 {
    let mut ts = libc::timespec { tv_sec: 0, tv_nsec: 0 };
    unsafe { libc::clock_gettime(clock, &mut ts) };
    ts.tv_sec as f64 + ts.tv_nsec as f64 * 1e-9
}

/// Runs `job` on a thread with the stack of `llw`'s main thread, exits with `EXIT_HANG` when one
/// case uses more than `HANG_CPU_SECS` of CPU.
pub fn run_watched<T: Send + 'static>(job: impl FnOnce() -> T + Send + 'static) -> T {
    let handle = std::thread::Builder::new()
        .stack_size(STACK_BYTES)
        .spawn(job)
        .unwrap_or_else(|e| vcommon::machinery_failure(&format!("cannot spawn the case thread: {e}")));
    let (mut seen, mut since) = (u64::MAX, 0.0);
    while !handle.is_finished() {
        std::thread::sleep(std::time::Duration::from_millis(100));
        let (seq, cpu) = (CASE_SEQ.load(Ordering::SeqCst), cpu_secs(libc::CLOCK_PROCESS_CPUTIME_ID));
        if seq != seen {
            (seen, since) = (seq, cpu);
        } else if cpu - since > HANG_CPU_SECS {
            unsafe { libc::_exit(EXIT_HANG) };
        }
    }
    match handle.join() {
        Ok(v) => v,
        Err(_) => vcommon::machinery_failure("harness code panicked outside the guarded lelwel calls"),
    }
}

pub fn text_hash(text: &str) -> u64 {
    let mut h = std::collections::hash_map::DefaultHasher::new();
    text.hash(&mut h);
    h.finish()
}

/// Self-test of the crash / hang attribution: `VTEXT_SELFTEST=overflow:<text>` or `hang:<text>`
/// makes the evaluation of exactly that text overflow the stack or spin.
fn selftest(text: &str) {
    #[allow(unconditional_recursion)]
    fn overflow(n: u64) -> u64 {
        std::hint::black_box(overflow(n + 1)) + 1
    }
    if let Ok(v) = std::env::var("VTEXT_SELFTEST") {
        if v.strip_prefix("overflow:") == Some(text) {
            overflow(0);
        } else if v.strip_prefix("hang:") == Some(text) {
            loop {
                std::hint::black_box(0);
            }
        }
    }
}

pub fn evaluate(property: &str, text: &str, cli: Option<&Cli>) -> Eval {
    CASE_SEQ.fetch_add(1, Ordering::SeqCst);
    selftest(text);
    match property {
        "C12" => oracle::eval_c12(text),
        "C17" => oracle::eval_c17(text),
        _ => oracle::eval_c18(text, cli).unwrap_or_else(|e| vcommon::machinery_failure(&e)),
    }
}

pub fn cli_from_env(scratch_file: PathBuf) -> Cli {
    let llw = std::env::var("VERIF_LLW").unwrap_or_default();
    if llw.is_empty() || !Path::new(&llw).exists() {
        vcommon::machinery_failure("VERIF_LLW does not name the llw binary (C18 is run through /verif/check)");
    }
    Cli { llw: llw.into(), file: scratch_file }
}

#[derive(Default)]
struct KeyAgg {
    count: u64,
    example: Option<(String, Value)>, // (text, finding json)
}

pub struct WorkerArgs {
    pub property: String,
    pub thorough: bool,
    pub index: usize,
    pub workers: usize,
    pub dir: PathBuf,
    pub from_unit: usize,
    pub skips: Vec<(u64, u64)>,
}

pub fn run(args: WorkerArgs) -> ! {
    oracle::install_quiet_panic_hook();
    let progress = Progress::open(&args.dir.join(format!("w{}.progress", args.index)))
        .unwrap_or_else(|e| vcommon::machinery_failure(&e));
    run_watched(move || work(args, progress));
    std::process::exit(0);
}

fn work(args: WorkerArgs, progress: Progress) {
    let ctx = Ctx::new().unwrap_or_else(|e| vcommon::machinery_failure(&e));
    let plan = plan(&ctx, &args.property, args.thorough);
    let cli = (args.property == "C18").then(|| cli_from_env(args.dir.join(format!("w{}.llw", args.index))));
    let cli_level = if args.thorough { 2 } else { 1 };
    let mut hashes = std::io::BufWriter::new(
        std::fs::OpenOptions::new()
            .append(true)
            .create(true)
            .open(args.dir.join(format!("w{}.hashes", args.index)))
            .unwrap_or_else(|e| vcommon::machinery_failure(&format!("hash file: {e}"))),
    );
    let mut nt_hashes = std::io::BufWriter::new(
        std::fs::OpenOptions::new()
            .append(true)
            .create(true)
            .open(args.dir.join(format!("w{}.nthashes", args.index)))
            .unwrap_or_else(|e| vcommon::machinery_failure(&format!("hash file: {e}"))),
    );
    let skips: HashSet<(u64, u64)> = args.skips.iter().copied().collect();
    let mut seen_outcomes: HashSet<String> = HashSet::new();
    let stdout = std::io::stdout();
    for (uid, unit) in plan.units.iter().enumerate() {
        if uid % args.workers != args.index || uid < args.from_unit {
            continue;
        }
        let block: &Block = &plan.blocks[unit.block];
        let cpu_start = cpu_secs(libc::CLOCK_THREAD_CPUTIME_ID);
        let (mut members, mut valid, mut nontrivial, mut exec, mut cli_runs) = (0u64, 0u64, 0u64, 0u64, 0u64);
        let mut keys: BTreeMap<String, KeyAgg> = BTreeMap::new();
        let mut new_outcomes = vec![];
        let mut sample: Option<String> = None;
        let mut layout_syntax: Vec<String> = vec![];
        for i in unit.range.clone() {
            if skips.contains(&(uid as u64, i)) {
                continue;
            }
            let Some(case) = block.case(&ctx, i) else { continue };
            progress.set(uid as u64, i);
            let use_cli = cli.as_ref().filter(|_| case.cli != 0 && case.cli <= cli_level);
            let ev = evaluate(&args.property, &case.text, use_cli);
            let _ = hashes.write_all(&text_hash(&case.text).to_ne_bytes());
            if ev.nontrivial {
                let _ = nt_hashes.write_all(&text_hash(&case.text).to_ne_bytes());
            }
            members += 1;
            valid += ev.valid as u64;
            nontrivial += ev.nontrivial as u64;
            exec += ev.executions;
            cli_runs += ev.cli_runs;
            if block.family() == "LAYOUT" && ev.syntax_diags > 0 && layout_syntax.len() < 3 {
                layout_syntax.push(case.text.clone());
            }
            if !seen_outcomes.contains(&ev.outcome) {
                seen_outcomes.insert(ev.outcome.clone());
                new_outcomes.push(ev.outcome.clone());
            }
            if sample.is_none() && i == (unit.range.start + unit.range.end) / 2 {
                sample = Some(case.text.clone());
            }
            for f in ev.findings {
                let agg = keys.entry(f.key.clone()).or_default();
                agg.count += 1;
                let better = match &agg.example {
                    None => true,
                    Some((t, _)) => (case.text.len(), &case.text) < (t.len(), t),
                };
                if better {
                    let v = json!({"summary": f.summary, "extra": f.extra, "origin": case.origin, "cli": use_cli.is_some()});
                    agg.example = Some((case.text.clone(), v));
                }
            }
        }
        let findings: Vec<Value> = keys
            .into_iter()
            .map(|(k, a)| {
                let (text, v) = a.example.unwrap();
                json!({"key": k, "count": a.count, "text": text, "detail": v})
            })
            .collect();
        let line = json!({"unit": uid, "family": block.family(), "members": members, "valid": valid,
            "nontrivial": nontrivial, "executions": exec, "cli_runs": cli_runs, "outcomes": new_outcomes,
            "findings": findings, "sample": sample, "layout_syntax": layout_syntax,
            "cpu_s": cpu_secs(libc::CLOCK_THREAD_CPUTIME_ID) - cpu_start});
        let mut out = stdout.lock();
        let _ = writeln!(out, "{line}");
        let _ = out.flush();
        let _ = hashes.flush();
        let _ = nt_hashes.flush();
    }
}
