//! vtext — text-level engine for C12 (front end total, spans valid), C17 (formatting preserves
//! content) and C18 (formatting idempotent, check mode agrees).
//!
//! `vtext <C12|C17|C18> [--tier quick|thorough] [--replay <path>]`
//!
//! The master process enumerates nothing itself: it starts one worker subprocess per core
//! (`vtext --worker ...`), merges their per-unit results, and, when a worker dies (stack overflow,
//! abort, watchdog), re-runs the case the worker had announced in a subprocess of its own
//! (`vtext --eval-one ...`) to attribute the crash, then restarts the worker behind that case.

mod families;
mod oracle;
mod worker;

use families::{plan, Ctx, Plan};
use serde_json::{json, Value};
use std::collections::{BTreeMap, BTreeSet};
use std::io::{BufRead, BufReader, Read};
use std::path::{Path, PathBuf};
use std::process::{Command, Stdio};
use std::sync::{mpsc, Arc};
use vcommon::{machinery_failure, Report, Violation};

fn rule(property: &str) -> &'static str {
    match property {
        "C12" => "distinct_nontrivial = distinct texts that drew at least one diagnostic (the span and rendering clauses had something to check)",
        "C17" => "distinct_nontrivial = distinct texts without syntax diagnostic whose formatter output differs from the input (clause (b) compared two different texts)",
        _ => "distinct_nontrivial = distinct texts without syntax diagnostic whose formatter output differs from the input (the second pass started from a text the formatter produced itself)",
    }
}

// ---------------------------------------------------------------- single case in a subprocess

enum OneResult {
    Completed(Vec<Value>),
    Crash(String),
    Hang,
}

/// Evaluates one text in a fresh subprocess, so that a stack overflow or abort is an observation.
fn eval_one_child(property: &str, text: &str, cli: bool, scratch: &Path, tag: &str) -> OneResult {
    let path = scratch.join(format!("one-{tag}.json"));
    std::fs::write(&path, json!({"text": text, "cli": cli}).to_string())
        .unwrap_or_else(|e| machinery_failure(&format!("{}: {e}", path.display())));
    let exe = std::env::current_exe().unwrap_or_else(|e| machinery_failure(&e.to_string()));
    let out = Command::new(exe)
        .args(["--eval-one", property])
        .arg(&path)
        .output()
        .unwrap_or_else(|e| machinery_failure(&format!("cannot start the single-case subprocess: {e}")));
    let stderr = String::from_utf8_lossy(&out.stderr).to_string();
    match out.status.code() {
        Some(0) => {
            let v: Value = serde_json::from_slice(&out.stdout)
                .unwrap_or_else(|e| machinery_failure(&format!("single-case subprocess output: {e}")));
            OneResult::Completed(v["findings"].as_array().cloned().unwrap_or_default())
        }
        Some(2) => machinery_failure(&format!("single-case subprocess: {stderr}")),
        Some(worker::EXIT_HANG) => OneResult::Hang,
        code => {
            use std::os::unix::process::ExitStatusExt;
            OneResult::Crash(if stderr.contains("overflowed its stack") {
                "stack-overflow".to_string()
            } else if let Some(sig) = out.status.signal() {
                format!("signal-{sig}")
            } else {
                format!("exit-{}", code.unwrap_or(-1))
            })
        }
    }
}

fn eval_one_main(property: &str, path: &str) -> ! {
    oracle::install_quiet_panic_hook();
    let body: Value = std::fs::read_to_string(path)
        .ok()
        .and_then(|s| serde_json::from_str(&s).ok())
        .unwrap_or_else(|| machinery_failure(&format!("cannot read {path}")));
    let text = body["text"].as_str().unwrap_or_else(|| machinery_failure("no text")).to_string();
    let cli = body["cli"].as_bool().unwrap_or(false) && property == "C18";
    let scratch = PathBuf::from(format!("{path}.llw"));
    let property = property.to_string();
    let findings = worker::run_watched(move || {
        let cli = cli.then(|| worker::cli_from_env(scratch.clone()));
        let ev = worker::evaluate(&property, &text, cli.as_ref());
        let _ = std::fs::remove_file(&scratch);
        ev.findings
            .into_iter()
            .map(|f| json!({"key": f.key, "summary": f.summary, "extra": f.extra}))
            .collect::<Vec<_>>()
    });
    println!("{}", json!({"findings": findings}));
    std::process::exit(0);
}

fn replay_main(property: &str, path: &str) -> ! {
    let body: Value = std::fs::read_to_string(path)
        .ok()
        .and_then(|s| serde_json::from_str(&s).ok())
        .unwrap_or_else(|| machinery_failure(&format!("cannot read replay file {path}")));
    let text = body["replay"]["text"]
        .as_str()
        .unwrap_or_else(|| machinery_failure("replay file has no replay.text"));
    let cli = body["replay"]["cli"].as_bool().unwrap_or(false);
    let scratch = vcommon::scratch_dir(&format!("vtext-replay-{}", std::process::id()));
    let res = eval_one_child(property, text, cli, &scratch, "replay");
    vcommon::remove_dir(&scratch);
    let keys: Vec<String> = match res {
        OneResult::Completed(f) => f.iter().map(|f| f["key"].as_str().unwrap_or("").to_string()).collect(),
        OneResult::Crash(what) => vec![format!("crash:{what}")],
        OneResult::Hang => vec!["hang".to_string()],
    };
    if keys.is_empty() {
        println!("{property} replay={path}: the stored text no longer violates the property");
        std::process::exit(0);
    }
    for k in &keys {
        println!("VIOLATION property={property} replay={path} key={k}");
    }
    std::process::exit(1);
}

// ---------------------------------------------------------------- master

enum Msg {
    Unit(Value),
    /// a finding established by the master itself (crash / hang attribution)
    Finding { key: String, text: String, detail: Value },
    Fatal(String),
}

struct Slot {
    index: usize,
    workers: usize,
    property: String,
    thorough: bool,
    dir: PathBuf,
    ctx: Arc<Ctx>,
    plan: Arc<Plan>,
}

fn tail(path: &Path) -> String {
    let s = std::fs::read_to_string(path).unwrap_or_default();
    s.lines().rev().take(5).collect::<Vec<_>>().into_iter().rev().collect::<Vec<_>>().join(" | ")
}

/// Keeps one worker slot alive until its share of the units is done.
fn manage(slot: Slot, tx: mpsc::Sender<Msg>) {
    let exe = std::env::current_exe().expect("current_exe");
    let err_path = slot.dir.join(format!("w{}.err", slot.index));
    let prog_path = slot.dir.join(format!("w{}.progress", slot.index));
    let (mut from, mut skips): (usize, Vec<(u64, u64)>) = (0, vec![]);
    loop {
        let err_file = std::fs::OpenOptions::new().append(true).create(true).open(&err_path).expect("stderr file");
        let mut cmd = Command::new(&exe);
        cmd.arg("--worker")
            .arg(&slot.property)
            .arg(if slot.thorough { "thorough" } else { "quick" })
            .args([slot.index.to_string(), slot.workers.to_string()])
            .arg(&slot.dir)
            .arg(from.to_string());
        for (u, i) in &skips {
            cmd.arg(format!("{u}:{i}"));
        }
        let mut child = match cmd.stdout(Stdio::piped()).stderr(err_file).spawn() {
            Ok(c) => c,
            Err(e) => return drop(tx.send(Msg::Fatal(format!("cannot start a worker: {e}")))),
        };
        for line in BufReader::new(child.stdout.take().unwrap()).lines().map_while(Result::ok) {
            match serde_json::from_str::<Value>(&line) {
                Ok(v) => {
                    from = v["unit"].as_u64().unwrap_or(0) as usize + 1;
                    let _ = tx.send(Msg::Unit(v));
                }
                Err(e) => return drop(tx.send(Msg::Fatal(format!("unreadable worker output: {e}")))),
            }
        }
        let status = child.wait().expect("wait");
        if status.success() {
            return;
        }
        // The worker died.  Which case had it announced?
        let at = worker::Progress::read(&prog_path);
        let fatal = |why: &str| {
            let _ = tx.send(Msg::Fatal(format!(
                "worker {} ended with {status} {why}; stderr: {}",
                slot.index,
                tail(&err_path)
            )));
        };
        let Some((u, i)) = at else { return fatal("and left no progress record") };
        if status.code() == Some(2)
            || (u as usize) < from
            || u as usize % slot.workers != slot.index
            || skips.contains(&(u, i))
            || skips.len() >= 200
        {
            return fatal("outside an attributable case");
        }
        let unit = &slot.plan.units[u as usize];
        let Some(case) = slot.plan.blocks[unit.block].case(&slot.ctx, i) else { return fatal("at a non-member index") };
        let cli = slot.property == "C18" && case.cli != 0 && case.cli <= if slot.thorough { 2 } else { 1 };
        let what = match eval_one_child(&slot.property, &case.text, cli, &slot.dir, &format!("w{}", slot.index)) {
            OneResult::Crash(what) => format!("crash:{what}"),
            OneResult::Hang => "hang".to_string(),
            OneResult::Completed(_) => return fatal("but the announced case completes on its own"),
        };
        let key = if slot.property == "C12" { what.clone() } else { format!("format-{what}") };
        let detail = json!({"summary": format!("{key}: the process running the case died ({status})"),
            "origin": case.origin, "cli": cli, "extra": {"worker_status": status.to_string()}});
        let _ = tx.send(Msg::Finding { key, text: case.text, detail });
        skips.push((u, i));
        from = u as usize;
    }
}

#[derive(Default)]
struct FamilyAgg {
    members: u64,
    valid: u64,
    nontrivial: u64,
    executions: u64,
    cli_runs: u64,
    cpu_s: f64,
    samples: BTreeMap<u64, String>,
}

#[derive(Default)]
struct KeyAgg {
    count: u64,
    best: Option<(String, Value)>,
}

impl KeyAgg {
    fn offer(&mut self, count: u64, text: &str, detail: &Value) {
        self.count += count;
        if self.best.as_ref().is_none_or(|(t, _)| (text.len(), text) < (t.len(), t.as_str())) {
            self.best = Some((text.to_string(), detail.clone()));
        }
    }
}

fn distinct_hashes(dir: &Path, suffix: &str, workers: usize) -> u64 {
    let mut all: Vec<u64> = vec![];
    for w in 0..workers {
        let mut buf = vec![];
        if let Ok(mut f) = std::fs::File::open(dir.join(format!("w{w}.{suffix}"))) {
            let _ = f.read_to_end(&mut buf);
        }
        all.extend(buf.chunks_exact(8).map(|c| u64::from_ne_bytes(c.try_into().unwrap())));
    }
    use rayon::prelude::*;
    all.par_sort_unstable();
    all.dedup();
    all.len() as u64
}

fn check_main(property: &str) -> ! {
    let mut rep = Report::new(property);
    let thorough = rep.is_thorough();
    let ctx = Arc::new(Ctx::new().unwrap_or_else(|e| machinery_failure(&e)));
    let plan = Arc::new(plan(&ctx, property, thorough));
    let dir = vcommon::scratch_dir(&format!("{}-{}", property.to_lowercase(), std::process::id()));
    let workers = std::thread::available_parallelism().map(|n| n.get()).unwrap_or(4).clamp(1, 16);
    let (tx, rx) = mpsc::channel();
    let mut managers = vec![];
    for index in 0..workers {
        let slot = Slot { index, workers, property: property.to_string(), thorough, dir: dir.clone(),
            ctx: ctx.clone(), plan: plan.clone() };
        let tx = tx.clone();
        managers.push(std::thread::spawn(move || manage(slot, tx)));
    }
    drop(tx);

    let mut fams: BTreeMap<String, FamilyAgg> = BTreeMap::new();
    let mut keys: BTreeMap<String, KeyAgg> = BTreeMap::new();
    let mut outcomes: BTreeSet<String> = BTreeSet::new();
    let mut units_done: BTreeSet<u64> = BTreeSet::new();
    let mut layout_syntax: Vec<String> = vec![];
    let mut attributed = 0u64;
    for msg in rx {
        match msg {
            Msg::Fatal(e) => {
                vcommon::remove_dir(&dir);
                machinery_failure(&e)
            }
            Msg::Finding { key, text, detail } => {
                attributed += 1;
                keys.entry(key).or_default().offer(1, &text, &detail);
            }
            Msg::Unit(v) => {
                let n = |k: &str| v[k].as_u64().unwrap_or(0);
                let uid = n("unit");
                if !units_done.insert(uid) {
                    vcommon::remove_dir(&dir);
                    machinery_failure(&format!("unit {uid} was reported twice"));
                }
                let fam = fams.entry(v["family"].as_str().unwrap_or("?").to_string()).or_default();
                fam.members += n("members");
                fam.valid += n("valid");
                fam.nontrivial += n("nontrivial");
                fam.executions += n("executions");
                fam.cli_runs += n("cli_runs");
                fam.cpu_s += v["cpu_s"].as_f64().unwrap_or(0.0);
                if let Some(s) = v["sample"].as_str() {
                    fam.samples.insert(uid, s.to_string());
                    if fam.samples.len() > 3 {
                        fam.samples.pop_last();
                    }
                }
                for o in v["outcomes"].as_array().into_iter().flatten() {
                    outcomes.insert(o.as_str().unwrap_or("").to_string());
                }
                for f in v["findings"].as_array().into_iter().flatten() {
                    keys.entry(f["key"].as_str().unwrap_or("").to_string()).or_default().offer(
                        f["count"].as_u64().unwrap_or(1),
                        f["text"].as_str().unwrap_or(""),
                        &f["detail"],
                    );
                }
                for t in v["layout_syntax"].as_array().into_iter().flatten() {
                    layout_syntax.push(t.as_str().unwrap_or("").to_string());
                }
            }
        }
    }
    for m in managers {
        let _ = m.join();
    }
    if units_done.len() != plan.units.len() {
        vcommon::remove_dir(&dir);
        machinery_failure(&format!("{} of {} work units reported", units_done.len(), plan.units.len()));
    }
    if let Some(t) = layout_syntax.iter().min_by_key(|t| (t.len(), t.as_str())) {
        vcommon::remove_dir(&dir);
        machinery_failure(&format!(
            "a LAYOUT text drew a syntax diagnostic (generator bug, or a front-end defect that belongs to C13): {t:?}"
        ));
    }
    let states = distinct_hashes(&dir, "hashes", workers);
    let distinct_nontrivial = distinct_hashes(&dir, "nthashes", workers);
    vcommon::remove_dir(&dir);

    let total = |f: fn(&FamilyAgg) -> u64| fams.values().map(f).sum::<u64>();
    let samples: Vec<&String> = fams.values().flat_map(|f| f.samples.values().take(2)).collect();
    let per_family: BTreeMap<&String, Value> = fams
        .iter()
        .map(|(k, f)| (k, json!({"texts": f.members, "without_syntax_diagnostic": f.valid,
            "nontrivial": f.nontrivial, "executions": f.executions, "cli_runs": f.cli_runs, "cpu_seconds": f.cpu_s.round()})))
        .collect();
    let outcome_list: Vec<&String> = outcomes.iter().take(40).collect();
    let coverage = json!({
        "states": states,
        "states_note": "distinct texts (64-bit content hashes merged over all workers)",
        "evaluations": total(|f| f.members),
        "transitions": total(|f| f.executions),
        "traces_validated_against_impl": total(|f| f.executions),
        "executions_note": "every execution is one run of real lelwel code (parse, semantic pass, format, lex, or one llw process) whose result the oracle inspected",
        "texts_without_syntax_diagnostic": total(|f| f.valid),
        "distinct_nontrivial": distinct_nontrivial,
        "rule": rule(property),
        "cli_runs": total(|f| f.cli_runs),
        "distinct_outcomes": outcomes.len(),
        "outcomes_first_40": outcome_list,
        "samples": samples,
        "exhaustive": true,
        "bounds": plan.bounds,
        "families": per_family,
        "work_units": plan.units.len(),
        "workers": workers,
        "cases_attributed_in_own_subprocess": attributed,
        "violation_keys": keys.iter().map(|(k, a)| json!({"key": k, "count": a.count,
            "shortest_text": a.best.as_ref().map(|b| b.0.chars().take(300).collect::<String>())})).collect::<Vec<_>>(),
    });
    // one violation per key first (shortest text), so that every distinct key gets a replay file
    let mut rest = vec![];
    for (key, agg) in &keys {
        let (text, detail) = agg.best.clone().unwrap();
        let summary = format!("{} [{} text(s)] shortest: {:?}", detail["summary"].as_str().unwrap_or(key), agg.count,
            text.chars().take(100).collect::<String>());
        let replay = json!({"text": text, "cli": detail["cli"], "origin": detail["origin"], "detail": detail["extra"]});
        rep.violation(Violation { key: key.clone(), summary: summary.clone(), replay: replay.clone() });
        rest.push((key.clone(), summary, replay, agg.count - 1));
    }
    for (key, summary, replay, more) in rest {
        for _ in 0..more {
            rep.violation(Violation { key: key.clone(), summary: summary.clone(), replay: replay.clone() });
        }
    }
    std::process::exit(rep.finish(coverage));
}

fn main() {
    let args: Vec<String> = std::env::args().collect();
    let arg = |i: usize| args.get(i).map(|s| s.as_str()).unwrap_or("");
    match arg(1) {
        "--worker" => {
            let num = |i: usize| arg(i).parse::<usize>().unwrap_or_else(|_| machinery_failure("bad worker arguments"));
            let skips = args[8.min(args.len())..]
                .iter()
                .filter_map(|s| s.split_once(':'))
                .filter_map(|(u, i)| Some((u.parse().ok()?, i.parse().ok()?)))
                .collect();
            worker::run(worker::WorkerArgs { property: arg(2).to_string(), thorough: arg(3) == "thorough",
                index: num(4), workers: num(5), dir: arg(6).into(), from_unit: num(7), skips });
        }
        "--eval-one" => eval_one_main(arg(2), arg(3)),
        "--plan" => {
            let ctx = Ctx::new().unwrap_or_else(|e| machinery_failure(&e));
            let p = plan(&ctx, arg(2), arg(3) == "thorough");
            let mut total = 0;
            for b in &p.blocks {
                total += b.len(&ctx);
                println!("{:>10} {}", b.len(&ctx), b.label(&ctx));
            }
            println!("{total} indices in {} blocks, {} units", p.blocks.len(), p.units.len());
        }
        "--cost" => {
            // measured per-text cost of each repository grammar (used to choose the MUT bounds)
            oracle::install_quiet_panic_hook();
            let ctx = Ctx::new().unwrap_or_else(|e| machinery_failure(&e));
            for f in &ctx.repo {
                let t = std::time::Instant::now();
                let reps = (200_000 / (f.text.len() + 100)).clamp(1, 200);
                for _ in 0..reps {
                    worker::evaluate(arg(2), &f.text, None);
                }
                println!("{:>9.0} us {:>6} bytes {:>5} tokens {}", t.elapsed().as_secs_f64() * 1e6 / reps as f64,
                    f.text.len(), f.spans.len(), f.path);
            }
        }
        "C12" | "C17" | "C18" => {
            if let Some(i) = args.iter().position(|a| a == "--replay") {
                replay_main(arg(1), arg(i + 1));
            }
            check_main(arg(1));
        }
        _ => {
            eprintln!("usage: vtext <C12|C17|C18> [--tier quick|thorough] [--replay <path>]");
            std::process::exit(2);
        }
    }
}
