//! Per-text oracles of C12 (front end total, spans valid), C17 (formatting preserves content) and
//! C18 (formatting idempotent, check mode agrees).  Everything here runs real lelwel code.

use crate::families::is_trivia;
use codespan_reporting::files::SimpleFile;
use codespan_reporting::term::{self, termcolor::NoColor};
use lelwel::backend::format::format;
use lelwel::frontend::lexer::{tokenize, Token};
use lelwel::frontend::parser::{Cst, Diagnostic, Node, NodeRef, Parser};
use lelwel::frontend::sema::SemanticPass;
use serde_json::{json, Value};
use std::cell::RefCell;
use std::panic::{catch_unwind, AssertUnwindSafe};
use std::path::PathBuf;

pub struct Finding {
    pub key: String,
    pub summary: String,
    pub extra: Value,
}

#[derive(Default)]
pub struct Eval {
    pub findings: Vec<Finding>,
    /// number of executions of real lelwel code (parse, semantic pass, format, lex, CLI run)
    pub executions: u64,
    /// the clause of the property that needs a syntactically valid input applied
    pub valid: bool,
    /// per-property non-triviality rule (see `main::RULES`)
    pub nontrivial: bool,
    /// vacuity signal: signature of what the implementation did with the text
    pub outcome: String,
    pub cli_runs: u64,
    /// a LAYOUT text must never draw a syntax diagnostic (generator bug or front-end defect)
    pub syntax_diags: usize,
}

impl Eval {
    fn add(&mut self, key: String, what: &str, extra: Value) {
        self.findings.push(Finding { summary: format!("{key}: {what}"), key, extra });
    }
}

// ---------------------------------------------------------------- panic capture

thread_local! {
    static LAST_PANIC: RefCell<Option<(String, String)>> = const { RefCell::new(None) };
}

/// Stable name of a source location: `src/...` for lelwel, `<crate-version>/src/...` for registry crates.
fn normalise_location(file: &str) -> String {
    if let Some(i) = file.find("registry/src/") {
        let rest = &file[i + "registry/src/".len()..];
        return rest.split_once('/').map(|(_, r)| r).unwrap_or(rest).to_string();
    }
    match file.find("/src/") {
        Some(i) => file[i + 1..].to_string(),
        None => file.to_string(),
    }
}

pub fn install_quiet_panic_hook() {
    std::panic::set_hook(Box::new(|info| {
        let loc = info
            .location()
            .map(|l| format!("{}:{}", normalise_location(l.file()), l.line()))
            .unwrap_or_else(|| "unknown".to_string());
        let payload = info.payload();
        let msg = payload
            .downcast_ref::<&str>()
            .map(|s| s.to_string())
            .or_else(|| payload.downcast_ref::<String>().cloned())
            .unwrap_or_default();
        LAST_PANIC.with(|p| *p.borrow_mut() = Some((loc, msg)));
    }));
}

/// Runs `f`; a panic becomes `Err((location, message))`.
fn guarded<T>(f: impl FnOnce() -> T) -> Result<T, (String, String)> {
    LAST_PANIC.with(|p| *p.borrow_mut() = None);
    catch_unwind(AssertUnwindSafe(f)).map_err(|_| {
        LAST_PANIC
            .with(|p| p.borrow_mut().take())
            .unwrap_or(("unknown".into(), String::new()))
    })
}

fn first_line(s: &str) -> String {
    s.lines().next().unwrap_or("").chars().take(160).collect()
}

// ---------------------------------------------------------------- helpers on tokens

fn kind_name(t: Token) -> String {
    format!("{t:?}")
}

/// Coarse token class used in layout signatures (all regex atoms are alike for the formatter).
fn class(t: Option<Token>) -> String {
    match t {
        None => "none".into(),
        Some(
            Token::Id | Token::Str | Token::Predicate | Token::Action | Token::Assertion
            | Token::NodeRename | Token::NodeMarker | Token::NodeCreation | Token::Tilde | Token::And,
        ) => "atom".into(),
        Some(Token::Token | Token::Start | Token::Right | Token::Skip | Token::Part) => "keyword".into(),
        Some(Token::Star | Token::Plus) => "rep".into(),
        Some(t) => kind_name(t),
    }
}

struct Lexed {
    kinds: Vec<Token>,
    spans: Vec<std::ops::Range<usize>>,
}

fn lex(text: &str) -> Lexed {
    let (kinds, spans) = tokenize(text, &mut vec![]);
    Lexed { kinds, spans }
}

impl Lexed {
    /// index of the token containing byte `pos` (or the last one before it)
    fn at(&self, pos: usize) -> Option<usize> {
        self.spans.iter().rposition(|s| s.start <= pos)
    }
    fn prev_solid(&self, i: usize) -> Option<Token> {
        self.kinds[..i].iter().rev().copied().find(|k| !is_trivia(*k))
    }
    fn next_solid(&self, i: usize) -> Option<Token> {
        self.kinds[i..].iter().copied().find(|k| !is_trivia(*k))
    }
    /// (kind, text) of all tokens but whitespace; comments modulo trailing whitespace
    fn content<'a>(&self, text: &'a str) -> Vec<(Token, &'a str)> {
        self.kinds
            .iter()
            .zip(&self.spans)
            .filter(|(k, _)| **k != Token::Whitespace)
            .map(|(k, s)| (*k, if is_trivia(*k) { text[s.clone()].trim_end() } else { &text[s.clone()] }))
            .collect()
    }
}

fn syntax_count(diags: &[Diagnostic]) -> usize {
    diags.iter().filter(|d| d.code.is_none()).count()
}

fn diag_signature(diags: &[Diagnostic]) -> String {
    let mut codes: Vec<&str> = diags.iter().map(|d| d.code.as_deref().unwrap_or("syn")).collect();
    codes.sort();
    codes.join(",")
}

// ---------------------------------------------------------------- C12

pub fn eval_c12(text: &str) -> Eval {
    let mut ev = Eval::default();
    let mut diags: Vec<Diagnostic> = vec![];
    let mut stage = "parse";
    let res = guarded(|| {
        let cst = Parser::new(text, &mut diags).parse(&mut diags);
        stage = "sema";
        let _sema = SemanticPass::run(&cst, &mut diags);
    });
    ev.executions += 2;
    ev.syntax_diags = syntax_count(&diags);
    if let Err((loc, msg)) = res {
        ev.add(
            format!("panic:{loc}"),
            &format!("front end panicked during {stage}: {}", first_line(&msg)),
            json!({"panic_message": msg, "stage": stage}),
        );
    }
    let file = SimpleFile::new("f", text);
    let config = term::Config::default();
    for d in &diags {
        let code = d.code.clone().unwrap_or_else(|| "syntax".to_string());
        let mut spans_ok = true;
        for l in &d.labels {
            let (s, e) = (l.range.start, l.range.end);
            let kind = if s > e {
                "start-after-end"
            } else if e > text.len() {
                "beyond-end-of-text"
            } else if !text.is_char_boundary(s) || !text.is_char_boundary(e) {
                "not-on-char-boundary"
            } else {
                continue;
            };
            spans_ok = false;
            ev.add(
                format!("span:{code}:{kind}"),
                &format!("label {s}..{e} of diagnostic `{}` in a text of {} bytes", d.message, text.len()),
                json!({"range": [s, e], "message": d.message}),
            );
        }
        if !spans_ok {
            continue; // rendering is known to be impossible; one key per defect
        }
        let rendered = guarded(|| {
            let mut w = NoColor::new(Vec::new());
            term::emit_to_write_style(&mut w, &config, &file, d).map_err(|e| e.to_string())
        });
        match rendered {
            Ok(Ok(())) => {}
            Ok(Err(e)) => ev.add(format!("render:{code}:error"), &e, json!({"message": d.message})),
            Err((loc, msg)) => ev.add(
                format!("render:{code}:panic:{loc}"),
                &first_line(&msg),
                json!({"message": d.message}),
            ),
        }
    }
    ev.valid = ev.syntax_diags == 0;
    ev.nontrivial = !diags.is_empty();
    ev.outcome = diag_signature(&diags);
    ev
}

// ---------------------------------------------------------------- C17

fn strip_ws(s: &str) -> Vec<(usize, char)> {
    s.char_indices().filter(|(_, c)| !c.is_whitespace()).collect()
}

/// Parse + format in one guarded step: (formatted text, syntax diagnostics of the input).
fn format_text(text: &str, ev: &mut Eval) -> Result<(String, Vec<Diagnostic>), (String, String)> {
    ev.executions += 2;
    guarded(|| {
        let mut diags = vec![];
        let cst = Parser::new(text, &mut diags).parse(&mut diags);
        (format(&cst), diags)
    })
}

/// (code, message) multiset of the semantic diagnostics; a panic is an outcome like any other.
fn sema_outcome(text: &str, ev: &mut Eval) -> Vec<(String, String)> {
    ev.executions += 2;
    let res = guarded(|| {
        let mut diags = vec![];
        let cst = Parser::new(text, &mut diags).parse(&mut diags);
        let _sema = SemanticPass::run(&cst, &mut diags);
        diags
    });
    let mut out: Vec<(String, String)> = match res {
        Ok(diags) => diags
            .into_iter()
            .filter_map(|d| d.code.map(|c| (c, d.message)))
            .collect(),
        Err((loc, _)) => vec![("PANIC".into(), loc)],
    };
    out.sort();
    out
}

pub fn eval_c17(text: &str) -> Eval {
    let mut ev = Eval::default();
    let (out, in_diags) = match format_text(text, &mut ev) {
        Ok(r) => r,
        Err((loc, msg)) => {
            ev.add(
                format!("format-panic:{loc}"),
                &format!("parse + format panicked: {}", first_line(&msg)),
                json!({"panic_message": msg}),
            );
            ev.outcome = "panic".into();
            return ev;
        }
    };
    ev.syntax_diags = syntax_count(&in_diags);
    ev.valid = ev.syntax_diags == 0;
    ev.nontrivial = ev.valid && out != text;
    ev.outcome = format!("{}{}", if ev.valid { "valid" } else { "invalid" }, if out != text { "-changed" } else { "-fixpoint" });
    let lin = lex(text);
    ev.executions += 1;
    // (a) same non-whitespace characters in the same order
    let (a, b) = (strip_ws(text), strip_ws(&out));
    if a.iter().map(|x| x.1).ne(b.iter().map(|x| x.1)) {
        let n = a.iter().zip(&b).take_while(|(x, y)| x.1 == y.1).count();
        let how = if n == b.len() { "output-ends-early" } else if n == a.len() { "output-has-more" } else { "differs" };
        let pos = a.get(n).map(|x| x.0).unwrap_or(text.len());
        let ti = lin.at(pos);
        let shape = format!(
            "{how}:at={}:after={}",
            ti.map(|i| kind_name(lin.kinds[i])).unwrap_or("EOF".into()),
            ti.and_then(|i| lin.prev_solid(i)).map(kind_name).unwrap_or("none".into())
        );
        ev.add(
            format!("chars-changed:{shape}"),
            &format!("non-whitespace characters differ from input byte {pos} on"),
            json!({"formatted": out, "input_offset": pos}),
        );
    }
    if !ev.valid {
        return ev;
    }
    // (b) syntactically valid input: same tokens and comments, still valid, same semantic diagnostics
    let lout = lex(&out);
    ev.executions += 1;
    let (ca, cb) = (lin.content(text), lout.content(&out));
    if ca != cb {
        let n = ca.iter().zip(&cb).take_while(|(x, y)| x == y).count();
        let name = |v: &Vec<(Token, &str)>, i: usize| v.get(i).map(|x| kind_name(x.0)).unwrap_or("EOF".into());
        let shape = format!(
            "after={}:in={}:out={}",
            if n > 0 { name(&ca, n - 1) } else { "none".into() },
            name(&ca, n),
            name(&cb, n)
        );
        ev.add(
            format!("tokens-changed:{shape}"),
            &format!("token/comment sequence differs at index {n}"),
            json!({"formatted": out, "in_token": ca.get(n).map(|x| x.1), "out_token": cb.get(n).map(|x| x.1)}),
        );
    }
    let mut out_diags = vec![];
    let reparsed = guarded(|| {
        Parser::new(&out, &mut out_diags).parse(&mut out_diags);
    });
    ev.executions += 1;
    if let Err((loc, msg)) = reparsed {
        ev.add(format!("format-panic:{loc}"), &format!("parsing the output panicked: {}", first_line(&msg)), json!({"formatted": out}));
    } else if let Some(d) = out_diags.iter().find(|d| d.code.is_none()) {
        let pos = d.labels.first().map(|l| l.range.start).unwrap_or(0);
        let ti = lout.at(pos);
        let shape = format!(
            "{}:at={}:after={}",
            d.message.split([',', ':']).next().unwrap_or("").replace(' ', "-"),
            ti.map(|i| kind_name(lout.kinds[i])).unwrap_or("EOF".into()),
            ti.and_then(|i| lout.prev_solid(i)).map(kind_name).unwrap_or("none".into())
        );
        ev.add(
            format!("syntax-error-after-format:{shape}"),
            &format!("output has a syntax error at byte {pos}: {}", d.message),
            json!({"formatted": out}),
        );
    }
    let (sa, sb) = (sema_outcome(text, &mut ev), sema_outcome(&out, &mut ev));
    let codes: Vec<&str> = sa.iter().map(|x| x.0.as_str()).collect();
    ev.outcome = format!("{}|{}", ev.outcome, codes.join(","));
    if sa != sb {
        let lost = sa.iter().find(|x| !sb.contains(x));
        let gained = sb.iter().find(|x| !sa.contains(x));
        let shape = match (lost, gained) {
            (Some(l), _) => format!("lost={}", l.0),
            (None, Some(g)) => format!("gained={}", g.0),
            (None, None) => "multiplicity".to_string(),
        };
        ev.add(
            format!("sema-changed:{shape}"),
            &format!("semantic diagnostics differ: lost {lost:?}, gained {gained:?}"),
            json!({"formatted": out}),
        );
    }
    ev
}

// ---------------------------------------------------------------- C18

/// Scratch file and binary for the check-mode agreement clause.
pub struct Cli {
    pub llw: PathBuf,
    pub file: PathBuf,
}

impl Cli {
    /// exit code of `llw -f [-c] file`; None when the process died from a signal
    fn run(&self, check: bool) -> Result<Option<i32>, String> {
        let mut cmd = std::process::Command::new(&self.llw);
        cmd.arg("-f");
        if check {
            cmd.arg("-c");
        }
        let out = cmd.arg(&self.file).output().map_err(|e| format!("cannot run {}: {e}", self.llw.display()))?;
        Ok(out.status.code())
    }
}

/// innermost CST rule node whose span contains `pos`
fn enclosing_construct(cst: &Cst<'_>, pos: usize) -> String {
    let mut node = NodeRef::ROOT;
    let mut name = "File".to_string();
    loop {
        let next = cst.children(node).find(|c| {
            let sp = cst.span(*c);
            matches!(cst.get(*c), Node::Rule(..)) && sp.start <= pos && pos < sp.end
        });
        match next {
            Some(c) => {
                if let Node::Rule(r, _) = cst.get(c) {
                    name = format!("{r:?}");
                }
                node = c;
            }
            None => return name,
        }
    }
}

/// Signature of the inter-token gap of `f1` in which `f1` and `f2` first differ: (kind of the
/// first comment in the gap, class of the token before, class of the token after, newline before /
/// after that comment, enclosing construct).  Coarse on purpose: one formatter
/// defect should give few keys, a new shape of instability a new key.
fn gap_signature(f1: &str, f2: &str, cst1: &Cst<'_>) -> String {
    let pos = f1.bytes().zip(f2.bytes()).take_while(|(a, b)| a == b).count().min(f1.len());
    let l = lex(f1);
    let Some(i) = l.at(pos) else { return "empty".into() };
    // a difference inside a solid token is attributed to the (possibly empty) gap before it
    let (mut lo, mut hi) = if is_trivia(l.kinds[i]) { (i, i + 1) } else { (i, i) };
    while lo > 0 && is_trivia(l.kinds[lo - 1]) {
        lo -= 1;
    }
    while hi < l.kinds.len() && is_trivia(l.kinds[hi]) {
        hi += 1;
    }
    let gap: Vec<usize> = (lo..hi).filter(|j| is_trivia(l.kinds[*j])).collect();
    let text_of = |js: &[usize]| js.iter().map(|j| &f1[l.spans[*j].clone()]).collect::<String>();
    let (comment, nl_before, nl_after) = match gap.iter().position(|j| l.kinds[*j] != Token::Whitespace) {
        Some(c) => {
            let block = l.kinds[gap[c]] == Token::BlockComment;
            let after = gap.get(c + 1).filter(|j| l.kinds[**j] == Token::Whitespace);
            (
                if block { "block" } else { "line" }, // `//` and `///` take the same formatter paths
                text_of(&gap[..c]).contains('\n'),
                !block || after.is_some_and(|j| f1[l.spans[*j].clone()].contains('\n')),
            )
        }
        None => ("none", text_of(&gap).contains('\n'), false),
    };
    let next = match l.next_solid(hi) {
        None => "none",
        Some(Token::Semi | Token::RPar | Token::RBrak) => "close",
        Some(_) => "item",
    };
    format!(
        "comment={comment}:prev={}:next={next}:nl-before={}:nl-after={}:in={}",
        class(l.prev_solid(lo)),
        nl_before as u8,
        nl_after as u8,
        enclosing_construct(cst1, pos)
    )
}

pub fn eval_c18(text: &str, cli: Option<&Cli>) -> Result<Eval, String> {
    let mut ev = Eval::default();
    let Ok((f1, in_diags)) = format_text(text, &mut ev) else {
        ev.outcome = "panic".into();
        return Ok(ev); // C17's business
    };
    ev.syntax_diags = syntax_count(&in_diags);
    if ev.syntax_diags > 0 {
        ev.outcome = "invalid".into();
        return Ok(ev);
    }
    ev.valid = true;
    ev.nontrivial = f1 != text;
    ev.executions += 2;
    let second = guarded(|| {
        let mut d = vec![];
        let cst1 = Parser::new(&f1, &mut d).parse(&mut d);
        let f2 = format(&cst1);
        let sig = if f2 != f1 { gap_signature(&f1, &f2, &cst1) } else { String::new() };
        (f2, sig)
    });
    let (f2, sig) = match second {
        Ok(r) => r,
        Err((loc, msg)) => {
            // C17 would see this only if it happened to enumerate the text `f1`
            ev.add(format!("second-pass-panic:{loc}"), &first_line(&msg), json!({"format1": f1}));
            ev.outcome = "panic-on-second-pass".into();
            return Ok(ev);
        }
    };
    let idempotent = f1 == f2;
    ev.outcome = format!("{}-{}", if ev.nontrivial { "changed" } else { "fixpoint" }, if idempotent { "stable" } else { "unstable" });
    let key = format!("not-idempotent:{sig}");
    if !idempotent {
        ev.add(key.clone(), "format(format(x)) != format(x)", json!({"format1": f1, "format2": f2}));
    }
    if let Some(cli) = cli {
        std::fs::write(&cli.file, text).map_err(|e| format!("write {}: {e}", cli.file.display()))?;
        let c0 = cli.run(true)?;
        let want0 = if f1 == text { 0 } else { 1 };
        if c0 != Some(want0) {
            ev.add(
                format!("check-mode-disagrees:exit={c0:?}:expected={want0}"),
                "`llw -f -c` exit status does not reflect whether formatting changes the file",
                json!({"format1": f1}),
            );
        }
        let c1 = cli.run(false)?;
        let on_disk = std::fs::read_to_string(&cli.file).map_err(|e| format!("read back: {e}"))?;
        if c1 != Some(0) || on_disk != f1 {
            ev.add(
                format!("cli-format-differs:exit={c1:?}"),
                "`llw -f` did not leave the in-process formatter's output in the file",
                json!({"format1": f1, "on_disk": on_disk}),
            );
        } else {
            let c2 = cli.run(true)?;
            let want2 = if idempotent { 0 } else { 1 };
            if c2 != Some(want2) {
                ev.add(
                    format!("check-mode-disagrees:exit={c2:?}:expected={want2}"),
                    "`llw -f -c` after `llw -f` does not reflect idempotence",
                    json!({"format1": f1, "format2": f2}),
                );
            }
        }
        ev.cli_runs += 3;
        ev.executions += 3;
    }
    Ok(ev)
}
