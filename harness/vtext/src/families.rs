//! Input families: deterministic, exhaustive up to a bound, simplest first, index addressable.
//!
//! Every family is a list of `Block`s; a block has a length and maps an index to a text (or to
//! `None` when that index is not a member, e.g. a layout whose tokens would fuse).  Index
//! addressing lets the worker processes share one enumeration without generating each other's texts.

use lelwel::frontend::lexer::{tokenize, Token};
use serde_json::{json, Value};
use std::collections::BTreeMap;
use std::ops::Range;

/// Lexeme alphabet of the grammar language (plus characters outside it).
pub const FULL: &[&str] = &[
    "A", "s", ":", ";", "|", "(", ")", "[", "]", "*", "+", "/", "^", "~", "&", "=",
    "token", "start", "right", "skip", "part",
    "'x'", "'\\''", "'\\\\'", "'\\x'", "'\\é'", "'x", "'\\",
    "?1", "?t", "#1", "!1", "@n", "@", "<1", "1>n", "1>", ">n", ">",
    "// c\n", "/// c\n", "/* c */", "/* c\nd */", "/* c", "// c",
    "$", "é", "😀", " ", "\n", "\t",
];
pub const REDUCED: &[&str] = &[
    "A", "s", ":", ";", "|", "(", ")", "[", "]", "*", "/", "^", "=", "token", "start", "'x'",
    "?1", "@n", "<1", "1>n", "// c\n", "$",
];
pub const TINY: &[&str] = &["A", "s", ":", ";", "|", "(", ")", "*", "token"];

/// Seed grammars with one hole; index 0 is the empty file.
pub const HOLES: &[&str] = &[
    "□",
    "token A B; start s; s: □;",
    "token A B; start s; s: A □ B;",
    "token A; start t; t: s; s: □ | A;",
    "token □;",
    "token A; start s; □ s: A;",
    "token A B; start s; s: (□);",
    "token A B; start s; s: [□];",
    "token A='a' B; right □; start s; s: A;",
];

/// Gap fillers of the LAYOUT family.  The first `REDUCED_FILLERS` entries form the set C12 uses at
/// three deviations (C17 and C18 use all of them).
pub const FILLERS: &[&str] = &[
    "", " ", "\n", " // c\n", "// c\n", " /* c */ ", "/// c\n", "\n\n", "\n   ", " /// c\n",
    "/* c */", "\t", "\r\n", " /* c\nd */ ",
];
pub const REDUCED_FILLERS: usize = 7;

/// Syntactically valid seed grammars as token lists (tokens separated by one space).
pub const LAYOUT_SEEDS: &[&str] = &[
    "s : A ;",
    "token A ; start s ; s : A ;",
    "token A B C ; start s ; s : A B C ;",
    "token A = 'a' B = 'b' ; start s ; s : 'a' B ;",
    "token A ; token B = 'b' ; skip B ; start s ; s : A ;",
    "token A B ; right A 'b' ; start e ; e : e A e | B ;",
    "token A B ; part p q ; start s ; s : A ; p : B ; q : A ;",
    "skip A 'b' ; right 'c' D ; part p ;",
    "token A B ; start s ; s : A | B ;",
    "token A B C ; start s ; s : A / B / C ;",
    "token A B C ; start s ; s : ( A | B ) C ;",
    "token A B C ; start s ; s : ( A / B C ) ;",
    "token A B ; start s ; s : [ A ] B * ;",
    "token A B ; start s ; s : ( A B ) + [ ( A | B ) * ] ;",
    "token A B ; start s ; s : [ A | B ] ( A / B ) * ;",
    "token A ; start s ; s : ;",
    "token A ; start s ; s : ( ) A ;",
    "token Q = '\\'' B = '\\\\' ; start s ; s : '\\'' '\\\\' ;",
    "token A B ; start s ; s : r A ; r ^ : A | B ;",
    "token A B ; start s ; s : ?1 A #1 | !1 B #2 ;",
    "token A B ; start s ; s : <1 A 1>n B @m ;",
    "token A B ; start s ; s ^ : A >n | B ^ ;",
    "token A B ; start s ; s : ( A ~ B / A & ) ;",
    "token A ; start s ; s : A ; t : A ; u : s ;",
    "s : aaaaaaaaaaaaaaaaaaaaaaaaa bbbbbbbbbbbbbbbbbbbbbbbbb ccccccccccccccccccccccccc ddddddddddddddddddddddddd eeeeeeeeeeeeeeeeeeeeeeeee ;",
    "s : aaaaaaaaaaaaaaaaaaaaaaaaaaaaaaaaaaa | bbbbbbbbbbbbbbbbbbbbbbbbbbbbbbbbbbb | ccccccccccccccccccccccccccccccccccc ;",
    "token Aaaaaaaaaaaaaaaaaaaaaaaaaaa = 'aaaaaaaaaaaaaaaaaaaaaaaaa' Bbbbbbbbbbbbbbbbbbbbbbbbbbb = 'bbbbbbbbbbbbbbbbbbbbbbbbbb' Cc ;",
    "s : x ( aaaaaaaaaaaaaaaaaaaaaaaaaaaaaa bbbbbbbbbbbbbbbbbbbbbbbbbbbbbb | cccccccccccccccccccccccccccccc dddddddddddddddddddddd ) y ;",
    "s : aaaaaaaaaaaaaaaaaaaaaaaaaaaaaa [ bbbbbbbbbbbbbbbbbbbbbbbbbbbbbb / cccccccccccccccccccccccccccccc ] * ddddddddddddddddddddddddd ;",
];

pub fn is_trivia(t: Token) -> bool {
    matches!(t, Token::Whitespace | Token::LineComment | Token::BlockComment | Token::DocComment)
}

/// A repository grammar, split into lelwel's own tokens (trivia and error tokens included, so the
/// slices concatenate to the source).
pub struct RepoFile {
    pub path: String,
    pub text: String,
    pub spans: Vec<Range<usize>>,
    pub nontrivia: usize,
}

pub struct LayoutSeed {
    pub toks: Vec<&'static str>,
}

pub struct Ctx {
    pub repo: Vec<RepoFile>,
    pub layout: Vec<LayoutSeed>,
    /// (gaps, deviations) -> all gap index combinations, lexicographic
    combos: BTreeMap<(usize, usize), Vec<Vec<usize>>>,
}

fn combinations(n: usize, k: usize) -> Vec<Vec<usize>> {
    fn rec(n: usize, k: usize, from: usize, cur: &mut Vec<usize>, out: &mut Vec<Vec<usize>>) {
        if cur.len() == k {
            out.push(cur.clone());
            return;
        }
        for i in from..n {
            cur.push(i);
            rec(n, k, i + 1, cur, out);
            cur.pop();
        }
    }
    let mut out = vec![];
    rec(n, k, 0, &mut vec![], &mut out);
    out
}

impl Ctx {
    pub fn new() -> Result<Ctx, String> {
        let mut paths = vec![];
        let mut examples: Vec<_> = std::fs::read_dir("/repo/examples")
            .map_err(|e| format!("/repo/examples: {e}"))?
            .filter_map(|e| e.ok().map(|e| e.path().join("src")))
            .collect();
        examples.push("/repo/tests/frontend".into());
        for dir in examples {
            if let Ok(rd) = std::fs::read_dir(&dir) {
                for e in rd.filter_map(|e| e.ok()) {
                    if e.path().extension().is_some_and(|x| x == "llw") {
                        paths.push(e.path().to_string_lossy().to_string());
                    }
                }
            }
        }
        paths.push("/repo/src/frontend/lelwel.llw".to_string());
        paths.sort();
        let mut repo: Vec<RepoFile> = vec![];
        for path in paths {
            let text = std::fs::read_to_string(&path).map_err(|e| format!("{path}: {e}"))?;
            if repo.iter().any(|f| f.text == text) {
                continue; // tests/frontend holds copies of the example grammars
            }
            let (toks, spans) = tokenize(&text, &mut vec![]);
            let nontrivia = toks.iter().filter(|t| !is_trivia(**t)).count();
            repo.push(RepoFile { path, text, spans, nontrivia });
        }
        if repo.len() < 30 {
            return Err(format!("only {} repository grammars found", repo.len()));
        }
        repo.sort_by_key(|f| (f.text.len(), f.path.clone()));
        let layout: Vec<LayoutSeed> = LAYOUT_SEEDS
            .iter()
            .map(|s| LayoutSeed { toks: s.split(' ').collect() })
            .collect();
        let mut combos = BTreeMap::new();
        for s in &layout {
            for d in 0..=3 {
                let gaps = s.toks.len() + 1;
                combos.entry((gaps, d)).or_insert_with(|| combinations(gaps, d));
            }
        }
        Ok(Ctx { repo, layout, combos })
    }
}

#[derive(Clone, Copy, Debug, PartialEq)]
pub enum MutKind {
    Identity,
    Delete,
    Duplicate,
    Swap,
    Truncate,
    Insert,
    ByteTruncate,
}

#[derive(Clone, Debug)]
pub enum Block {
    /// all sequences of exactly `k` items of `alpha` spliced into hole seed `hole`
    Lex { hole: usize, alpha: &'static [&'static str], alpha_name: &'static str, k: u32, spaced: bool },
    Mut { file: usize, kind: MutKind },
    /// all assignments with exactly `devs` gaps deviating from the default filler
    Layout { seed: usize, devs: usize, nfillers: usize },
}

pub struct Case {
    pub text: String,
    /// how the text was derived (goes into the replay artefact)
    pub origin: Value,
    /// C18: also exercise the real CLI on this text: 0 never, 1 in both tiers, 2 in the thorough tier
    pub cli: u8,
}

fn default_filler(gap: usize, gaps: usize) -> &'static str {
    if gap == 0 {
        ""
    } else if gap + 1 == gaps {
        "\n"
    } else {
        " "
    }
}

impl Block {
    pub fn family(&self) -> &'static str {
        match self {
            Block::Lex { hole: 0, .. } => "LEX-empty",
            Block::Lex { .. } => "LEX-holes",
            Block::Mut { .. } => "MUT",
            Block::Layout { .. } => "LAYOUT",
        }
    }
    pub fn label(&self, ctx: &Ctx) -> String {
        match self {
            Block::Lex { hole, alpha_name, k, spaced, .. } => format!(
                "LEX hole={hole} alpha={alpha_name} k={k} {}",
                if *spaced { "spaced" } else { "unspaced" }
            ),
            Block::Mut { file, kind } => format!("MUT {kind:?} {}", ctx.repo[*file].path),
            Block::Layout { seed, devs, nfillers } => {
                format!("LAYOUT seed={seed} devs={devs} fillers={nfillers}")
            }
        }
    }
    pub fn len(&self, ctx: &Ctx) -> u64 {
        match self {
            Block::Lex { alpha, k, .. } => (alpha.len() as u64).pow(*k),
            Block::Mut { file, kind } => {
                let f = &ctx.repo[*file];
                let n = f.spans.len() as u64;
                match kind {
                    MutKind::Identity => 1,
                    MutKind::Delete | MutKind::Duplicate => n,
                    MutKind::Swap | MutKind::Truncate => n.saturating_sub(1),
                    MutKind::Insert => (n + 1) * FULL.len() as u64,
                    MutKind::ByteTruncate => f.text.len() as u64,
                }
            }
            Block::Layout { seed, devs, nfillers } => {
                let gaps = ctx.layout[*seed].toks.len() + 1;
                ctx.combos[&(gaps, *devs)].len() as u64 * (*nfillers as u64).pow(*devs as u32)
            }
        }
    }
    /// Rough text length, used to size work units.
    pub fn weight(&self, ctx: &Ctx) -> usize {
        match self {
            Block::Mut { file, .. } => ctx.repo[*file].text.len(),
            // blocks whose cases may each start three llw processes (C18): spread them thinly
            Block::Layout { devs: 0 | 1, .. } => 250_000,
            Block::Layout { seed, devs: 2, .. } if ctx.layout[*seed].toks.len() <= 4 => 250_000,
            _ => 40,
        }
    }
    pub fn case(&self, ctx: &Ctx, idx: u64) -> Option<Case> {
        match self {
            Block::Lex { hole, alpha, alpha_name, k, spaced } => {
                let n = alpha.len() as u64;
                let mut items = vec![""; *k as usize];
                let mut r = idx;
                for slot in items.iter_mut().rev() {
                    *slot = alpha[(r % n) as usize];
                    r /= n;
                }
                let content = items.join(if *spaced { " " } else { "" });
                let text = HOLES[*hole].replace('□', &content);
                let origin = json!({"family": self.family(), "seed": HOLES[*hole], "items": items,
                    "alphabet": alpha_name, "spaced": spaced});
                Some(Case { text, origin, cli: 0 })
            }
            Block::Mut { file, kind } => {
                let f = &ctx.repo[*file];
                let (src, sp) = (&f.text, &f.spans);
                let i = idx as usize;
                let mut detail = json!(i);
                let text = match kind {
                    MutKind::Identity => src.clone(),
                    MutKind::Delete => format!("{}{}", &src[..sp[i].start], &src[sp[i].end..]),
                    MutKind::Duplicate => {
                        format!("{}{}{}", &src[..sp[i].end], &src[sp[i].clone()], &src[sp[i].end..])
                    }
                    MutKind::Swap => format!(
                        "{}{}{}{}",
                        &src[..sp[i].start],
                        &src[sp[i + 1].clone()],
                        &src[sp[i].clone()],
                        &src[sp[i + 1].end..]
                    ),
                    MutKind::Truncate => src[..sp[i].end].to_string(),
                    MutKind::Insert => {
                        let (pos, item) = (i / FULL.len(), FULL[i % FULL.len()]);
                        detail = json!({"before_token": pos, "item": item});
                        let at = if pos < sp.len() { sp[pos].start } else { src.len() };
                        format!("{}{}{}", &src[..at], item, &src[at..])
                    }
                    MutKind::ByteTruncate => {
                        if !src.is_char_boundary(i) {
                            return None;
                        }
                        src[..i].to_string()
                    }
                };
                let origin = json!({"family": "MUT", "file": f.path, "mutation": format!("{kind:?}"),
                    "index": detail});
                let cli = match kind {
                    MutKind::Identity => 1,
                    MutKind::Delete if f.nontrivia < 60 => 2,
                    _ => 0,
                };
                Some(Case { text, origin, cli })
            }
            Block::Layout { seed, devs, nfillers } => {
                let toks = &ctx.layout[*seed].toks;
                let gaps = toks.len() + 1;
                let nf = *nfillers as u64;
                let per = nf.pow(*devs as u32);
                let combo = &ctx.combos[&(gaps, *devs)][(idx / per) as usize];
                let mut fill: Vec<&str> = (0..gaps).map(|g| default_filler(g, gaps)).collect();
                let mut r = idx % per;
                for g in combo.iter().rev() {
                    let f = FILLERS[(r % nf) as usize];
                    r /= nf;
                    if f == fill[*g] {
                        return None; // not a deviation: that text belongs to a smaller block
                    }
                    fill[*g] = f;
                }
                let mut text = String::new();
                for (g, f) in fill.iter().enumerate() {
                    text.push_str(f);
                    if g < toks.len() {
                        text.push_str(toks[g]);
                    }
                }
                // the layout must not change the token sequence (fusing, `/` + `// c`, ...)
                let mut lex_diags = vec![];
                let (kinds, spans) = tokenize(&text, &mut lex_diags);
                let mut it = toks.iter();
                for (k, sp) in kinds.iter().zip(spans.iter()) {
                    if !is_trivia(*k) && it.next() != Some(&&text[sp.clone()]) {
                        return None;
                    }
                }
                if it.next().is_some() || !lex_diags.is_empty() {
                    return None;
                }
                let gap_fillers: Vec<Value> =
                    combo.iter().map(|g| json!({"gap": g, "filler": fill[*g]})).collect();
                let origin = json!({"family": "LAYOUT", "seed": LAYOUT_SEEDS[*seed],
                    "deviations": gap_fillers});
                // one llw process costs 50-200 ms in the sandbox: the quick tier runs the CLI on
                // all single deviations of the 4-token seed, the thorough tier on those of the seeds with at
                // most 14 tokens and on all pairs of deviations of the 4-token seed
                let cli = match (devs, toks.len()) {
                    (0 | 1, 0..=4) => 1,
                    (0 | 1, 5..=14) | (2, 0..=4) => 2,
                    _ => 0,
                };
                Some(Case { text, origin, cli })
            }
        }
    }
}

/// A contiguous index range of one block: the unit of work distribution and crash recovery.
#[derive(Clone, Debug)]
pub struct Unit {
    pub block: usize,
    pub range: Range<u64>,
}

pub struct Plan {
    pub blocks: Vec<Block>,
    pub units: Vec<Unit>,
    pub bounds: Value,
}

/// The families of one property at one tier.  Bounds were chosen from measured per-text costs so
/// that quick stays below ~45 s and thorough below ~12 min on 16 cores.
pub fn plan(ctx: &Ctx, property: &str, thorough: bool) -> Plan {
    let mut blocks = vec![];
    let mut lex_bounds = vec![];
    let nh = HOLES.len();
    // (holes, alphabet, name, lengths, spaced); the rows are disjoint: a row never repeats a
    // (hole, length, separator) combination over an alphabet that contains its own.
    type Row = (Range<usize>, &'static [&'static str], &'static str, Range<u32>, bool);
    let mut rows: Vec<Row> = vec![(0..nh, FULL, "full", 0..4, true), (0..1, FULL, "full", 2..4, false)];
    if thorough {
        rows.push((1..nh, FULL, "full", 2..4, false));
        rows.push((0..2, FULL, "full", 4..5, true)); // the empty file and `s: □;`
        rows.push((2..nh, REDUCED, "reduced", 4..5, true));
        rows.push((0..nh, REDUCED, "reduced", 4..5, false));
        rows.push((0..1, REDUCED, "reduced", 5..6, true));
        rows.push((0..nh, TINY, "tiny", 5..7, true));
        rows.push((0..1, TINY, "tiny", 5..7, false));
    } else {
        rows.push((1..nh, REDUCED, "reduced", 2..4, false));
        rows.push((0..nh, REDUCED, "reduced", 4..5, true));
        rows.push((0..nh, TINY, "tiny", 5..6, true));
    }
    for (holes, alpha, name, ks, spaced) in rows {
        lex_bounds.push(json!({"holes": format!("{}..{}", holes.start, holes.end), "alphabet": name,
            "alphabet_size": alpha.len(), "lengths": format!("{}..={}", ks.start, ks.end - 1),
            "separator": if spaced { "one space" } else { "none" }}));
        for k in ks {
            for hole in holes.clone() {
                blocks.push(Block::Lex { hole, alpha, alpha_name: name, k, spaced });
            }
        }
    }
    // MUT bounds in bytes of the unmutated file, from measured costs: the semantic pass takes
    // 15 ms (oberon0) to 160 ms (c) per text on the five large example grammars, parse + format 1/50
    // of that.  (delete/duplicate/swap/truncate, delete/truncate only, insert, byte truncation)
    const SMALL: usize = 500; // up to left_rec_predicate.llw
    const MID: usize = 1500; // up to lelwel.llw
    const BIG: usize = 3400; // up to lua.llw
    const ALL: usize = usize::MAX;
    let (token_mutations, delete_truncate, inserts, byte_truncations) = match (thorough, property) {
        (false, "C18") => (BIG, BIG, SMALL, 0),
        (false, _) => (MID, MID, SMALL, 0),
        (true, "C12") => (ALL, ALL, MID, BIG),
        (true, "C17") => (BIG, ALL, MID, BIG),
        (true, _) => (ALL, ALL, ALL, ALL),
    };
    let mut mut_counts = BTreeMap::new();
    for (file, f) in ctx.repo.iter().enumerate() {
        let mut kinds = vec![MutKind::Identity];
        for (kind, limit) in [
            (MutKind::Delete, delete_truncate),
            (MutKind::Duplicate, token_mutations),
            (MutKind::Swap, token_mutations),
            (MutKind::Truncate, delete_truncate),
            (MutKind::Insert, inserts),
            (MutKind::ByteTruncate, byte_truncations),
        ] {
            if f.text.len() <= limit && !f.text.is_empty() {
                kinds.push(kind);
            }
        }
        for kind in kinds {
            *mut_counts.entry(format!("{kind:?}")).or_insert(0u64) += 1;
            blocks.push(Block::Mut { file, kind });
        }
    }
    let g = if thorough { 3 } else { 2 };
    // layout is what C17/C18 are about; for C12 it only has to be present
    let fillers_at_3 = if property == "C12" { REDUCED_FILLERS } else { FILLERS.len() };
    for devs in 0..=g {
        for seed in 0..ctx.layout.len() {
            let nfillers = if devs == 3 { fillers_at_3 } else { FILLERS.len() };
            blocks.push(Block::Layout { seed, devs, nfillers });
        }
    }
    let mut units = vec![];
    for (b, block) in blocks.iter().enumerate() {
        let len = block.len(ctx);
        let chunk = (2_000_000 / (block.weight(ctx) as u64 + 200)).clamp(4, 8192);
        let mut at = 0;
        while at < len {
            let end = (at + chunk).min(len);
            units.push(Unit { block: b, range: at..end });
            at = end;
        }
    }
    let show = |limit: usize| if limit == ALL { json!("all files") } else { json!(limit) };
    let bounds = json!({
        "LEX": lex_bounds,
        "MUT": {"files": ctx.repo.len(), "blocks_per_mutation_kind": mut_counts,
                "identity_on": "all files",
                "applied_to_files_up_to_bytes": {
                    "delete_truncate": show(delete_truncate), "duplicate_swap": show(token_mutations),
                    "insert": show(inserts), "byte_truncation": show(byte_truncations)},
                "insert_alphabet_size": FULL.len()},
        "LAYOUT": {"seeds": ctx.layout.len(), "g": g, "fillers": FILLERS.len(),
                   "fillers_at_3_deviations": if thorough { fillers_at_3 } else { 0 }},
    });
    Plan { blocks, units, bounds }
}
