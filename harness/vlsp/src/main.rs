//! Engine E: property C20 - the language server survives any session and answers from the
//! latest text.
//!
//! Plan (see DESIGN.md, section C20):
//!  1. reference level: for both documents and every text of the alphabet a fresh server opens
//!     the text and answers every request at every position; every reply is judged by the oracle
//!     (`oracle.rs`, clauses 3-7) and every step by the liveness clauses 1-2;
//!  2. history level: EVERY notification history (open/change/close over two documents, all
//!     texts) up to the depth bound is executed on a fresh server, without merging states; after
//!     each one every request is swept over every open document and must equal the reference
//!     reply (clause 8). Requests of the alphabet that are already violations at the reference
//!     level are swept for histories up to length 2 (that covers every canonical state) and
//!     skipped (counted) below;
//!  3. follow-ups: after every step that did not end cleanly the next event of every class is
//!     executed to see whether the server dies;
//!  4. stdio: every notification history up to the stdio depth (2: that reaches every canonical
//!     state and every kind of transition) plus the sweep of all cleanly answered requests, and the
//!     follow-up histories of every suspicious step, are replayed against the real `lelwel-ls` in
//!     two pacings (burst: everything written at once, server threads free to run in parallel;
//!     lock-step: wait for each answer, idle 30 ms after notifications and after a swallowed
//!     panic) and compared message by message with the in-process replies; the process has to
//!     answer every id exactly once and exit with status 0 after shutdown/exit.
//!     What bounds the stdio part is the number of server processes (about 125 sessions per second
//!     in the sandbox whatever the parallelism), so the quick tier replays one follow-up class per
//!     suspicious step of document a (rotating through the classes), the thorough tier all classes
//!     for both documents.
//! In-process work runs in single-threaded worker subprocesses (pinned to one CPU each) so that the
//! process-wide panic hook attributes every panic (also the swallowed ones of analysis threads) to
//! the step running.
//!
//! Development aids: VLSP_SKIP=histories,sweeps,followups (partial run, exits 2), VLSP_THREADS=n
//! (stdio driver threads), VLSP_PIN=cpu (replay only).
//!
//! Not generated, because outside the protocol: requests/changes/closes for a document that is
//! not open (the handlers `unwrap()` a missing map entry), a second `didOpen` of an open document.

mod exec;
mod explore;
mod oracle;
mod stdio;
mod texts;

use exec::{Exec, Outcome};
use explore::*;
use oracle::{Ctx, TextInfo};
use rayon::prelude::*;
use serde_json::{json, Value};
use std::collections::{BTreeSet, HashMap};
use std::path::{Path, PathBuf};
use stdio::{Pacing, Session, Step};
use texts::{history_json, history_short, Event, Req, ALPHABET};

struct Tier {
    /// documents whose suspicious steps get stdio follow-up sessions (in-process: always both)
    stdio_follow_up_docs: usize,
    depth: usize,
    /// histories up to this length also sweep the requests that violate at the reference level
    full_sweep_depth: usize,
    stdio_depth: usize,
    /// true: every suspicious step gets a stdio session for every follow-up class; false: one
    /// class per suspicious step, rotating (in-process: always all classes)
    stdio_all_follow_up_classes: bool,
}

fn tier_bounds(thorough: bool) -> Tier {
    if thorough {
        Tier {
            depth: 4,
            full_sweep_depth: 2,
            stdio_depth: 2,
            stdio_all_follow_up_classes: true,
            stdio_follow_up_docs: 2,
        }
    } else {
        Tier {
            depth: 3,
            full_sweep_depth: 2,
            stdio_depth: 2,
            stdio_all_follow_up_classes: false,
            stdio_follow_up_docs: 1,
        }
    }
}

fn arg_after(flag: &str) -> Option<String> {
    let args: Vec<String> = std::env::args().collect();
    args.iter()
        .position(|a| a == flag)
        .and_then(|i| args.get(i + 1).cloned())
}

fn main() {
    exec::install_panic_hook();
    let dir = exec::docs_dir();
    if let Some(w) = arg_after("--worker") {
        worker(&dir, &w);
        return;
    }
    exec::prepare_dir(&dir);
    if let Some(path) = arg_after("--replay") {
        std::process::exit(replay(&dir, Path::new(&path)));
    }
    check(&dir);
}

/// A worker and the analysis threads it spawns strictly alternate, so they share one CPU: a
/// reply then costs a context switch instead of a cross-CPU wake-up (5x faster in the sandbox).
fn pin_to_cpu(i: usize) {
    let cpus = std::thread::available_parallelism().map_or(1, |n| n.get());
    unsafe {
        let mut set: libc::cpu_set_t = std::mem::zeroed();
        libc::CPU_SET(i % cpus, &mut set);
        libc::sched_setaffinity(0, std::mem::size_of::<libc::cpu_set_t>(), &set);
    }
}

fn unpin() {
    unsafe {
        let mut set: libc::cpu_set_t = std::mem::zeroed();
        for c in 0..libc::CPU_SETSIZE as usize {
            libc::CPU_SET(c, &mut set);
        }
        libc::sched_setaffinity(0, std::mem::size_of::<libc::cpu_set_t>(), &set);
    }
}

fn ls_path() -> PathBuf {
    let p =
        PathBuf::from(std::env::var("VERIF_LELWEL_LS").unwrap_or_else(|_| {
            vcommon::machinery_failure("VERIF_LELWEL_LS is not set (run through /verif/check C20)")
        }));
    if !p.is_file() {
        vcommon::machinery_failure(&format!("{} does not exist", p.display()));
    }
    p
}

/// Reference level for both documents: tables, oracle, list of (doc, text, request) to follow up.
/// `None` as request = the open itself did not end cleanly.
fn reference_level(
    dir: &Path,
    infos: &[TextInfo],
    bag: &mut Bag,
    cnt: &mut Counters,
) -> (Tables, Vec<(usize, usize, Option<Req>)>) {
    let tabs = Tables::build(dir, cnt);
    let uris = exec::doc_uris(dir);
    let mut suspicious = vec![];
    for doc in 0..2 {
        for (ti, info) in infos.iter().enumerate() {
            let tab = &tabs.t[doc][ti];
            if !tab.open.clean() {
                suspicious.push((doc, ti, None));
            }
            for r in check_table(dir, &uris, doc, info, tab, bag, cnt) {
                suspicious.push((doc, ti, Some(r)));
            }
        }
    }
    (tabs, suspicious)
}

fn follow_up_base(doc: usize, ti: usize, r: &Option<Req>) -> Vec<Event> {
    let text = ALPHABET[ti].1;
    let mut base = vec![Event::Open { doc, text }];
    if let Some(r) = r {
        base.push(Event::Request { doc, req: r.clone() });
    }
    base
}

// ---------------------------------------------------------------- worker

fn worker(dir: &Path, spec: &str) {
    let (i, n) = spec
        .split_once('/')
        .map(|(a, b)| (a.parse::<usize>().unwrap(), b.parse::<usize>().unwrap()))
        .unwrap();
    pin_to_cpu(i);
    let depth: usize = arg_after("--depth").unwrap().parse().unwrap();
    let full_sweep_depth: usize = arg_after("--full-sweep-depth").unwrap().parse().unwrap();
    let out = arg_after("--out").unwrap();
    let infos: Vec<TextInfo> = ALPHABET.iter().map(|(_, t)| TextInfo::new(t)).collect();
    let mut cnt = Counters {
        transitions: 0,
        evaluations: 0,
        nontrivial: 0,
    };
    let (tabs, suspicious) = reference_level(dir, &infos, &mut Bag::default(), &mut cnt);
    // the reference level is judged and counted by the parent
    let mut cnt = Counters {
        transitions: 0,
        evaluations: 0,
        nontrivial: 0,
    };
    let mut bag = Bag::default();
    let mut st = HistoryStats {
        skipped_known_panicking: 0,
    };
    let mut histories = 0u64;
    for (k, h) in notification_histories(depth).iter().enumerate() {
        if k % n == i {
            run_history(dir, h, &tabs, h.len() <= full_sweep_depth, &mut bag, &mut cnt, &mut st);
            histories += 1;
        }
    }
    let mut follow = 0u64;
    for (k, (doc, ti, r)) in suspicious.iter().enumerate() {
        if k % n == i {
            follow_ups(
                dir,
                &follow_up_base(*doc, *ti, r),
                *doc,
                ALPHABET[*ti].1,
                &tabs,
                &mut bag,
                &mut cnt,
            );
            follow += 1;
        }
    }
    let res = json!({
        "histories": histories,
        "follow_up_origins": follow,
        "transitions": cnt.transitions,
        "evaluations": cnt.evaluations,
        "nontrivial": cnt.nontrivial,
        "skipped_known_panicking": st.skipped_known_panicking,
        "violations": bag.by_key.values().map(|(n, v)| json!({"count": n, "v": v.to_json()})).collect::<Vec<_>>(),
    });
    std::fs::write(&out, serde_json::to_string(&res).unwrap()).expect("write worker result");
}

// ---------------------------------------------------------------- stdio sessions

fn diag_params(uri: &lsp_types::Url, o: &Outcome) -> Option<Value> {
    match &o.reply {
        Some(exec::Reply::Diags(d)) => {
            Some(serde_json::to_value(lsp_types::PublishDiagnosticsParams::new(uri.clone(), d.clone(), None)).unwrap())
        }
        _ => None,
    }
}

fn notification_step(uris: &[lsp_types::Url; 2], tabs: &Tables, e: &Event) -> Step {
    let expect = match e {
        Event::Open { doc, text } | Event::Change { doc, text } => diag_params(&uris[*doc], &tabs.of(*doc, text).open),
        _ => None,
    };
    Step {
        event: e.clone(),
        expect,
        idle_after: false,
    }
}

/// Session for a notification history: the notifications, then every cleanly answered request on
/// every open document.
fn sweep_session(uris: &[lsp_types::Url; 2], tabs: &Tables, h: &[Event]) -> Option<Session> {
    let mut steps = vec![];
    for e in h {
        if let Event::Open { doc, text } | Event::Change { doc, text } = e {
            if !tabs.of(*doc, text).open.clean() {
                return None; // covered by the follow-up sessions of that open
            }
        }
        steps.push(notification_step(uris, tabs, e));
        steps.last_mut().unwrap().idle_after = true;
    }
    let state = final_state(h);
    for doc in 0..2 {
        let Some(text) = state[doc] else { continue };
        let tab = tabs.of(doc, text);
        for (r, o) in tab.reqs.iter().zip(tab.outs.iter()) {
            if o.clean() {
                steps.push(Step {
                    event: Event::Request { doc, req: r.clone() },
                    expect: o.reply.as_ref().map(|r| r.to_json()),
                    idle_after: false,
                });
            }
        }
        if let Some(s) = steps.last_mut() {
            s.idle_after = true;
        }
    }
    Some(Session { steps, origin: None })
}

/// Sessions `pre.. base.. follow-up` for one suspicious step, one per follow-up class
/// (plus "nothing follows": straight to shutdown).
fn follow_up_sessions(
    uris: &[lsp_types::Url; 2],
    tabs: &Tables,
    doc: usize,
    ti: usize,
    r: &Option<Req>,
) -> Vec<Session> {
    let text = ALPHABET[ti].1;
    let valid = ALPHABET[0].1;
    let other = 1 - doc;
    let tab = tabs.of(doc, text);
    let (origin_ev, origin_out) = match r {
        Some(r) => (Event::Request { doc, req: r.clone() }, tab.get(r).unwrap().clone()),
        None => (Event::Open { doc, text }, tab.open.clone()),
    };
    let origin = origin_key(&origin_ev, &origin_out);
    let req_step = |d: usize, t: &'static str, r: &Req| Step {
        event: Event::Request { doc: d, req: r.clone() },
        // no comparison where the in-process step itself did not end cleanly
        expect: tabs
            .of(d, t)
            .get(r)
            .filter(|o| o.clean())
            .and_then(|o| o.reply.as_ref().map(|r| r.to_json())),
        idle_after: false,
    };
    let base = |pre: Vec<Event>| -> Vec<Step> {
        let mut steps: Vec<Step> = pre.iter().map(|e| notification_step(uris, tabs, e)).collect();
        steps.push(notification_step(uris, tabs, &Event::Open { doc, text }));
        if let Some(r) = r {
            steps.push(req_step(doc, text, r));
        }
        // the pacing sensitive point: is the dead analysis thread noticed before the next message?
        steps.last_mut().unwrap().idle_after = true;
        steps
    };
    let mut sessions = vec![];
    let mut add = |pre: Vec<Event>, fu: Option<Step>| {
        let mut steps = base(pre);
        steps.extend(fu);
        sessions.push(Session {
            steps,
            origin: Some(origin.clone()),
        });
    };
    add(vec![], None);
    add(vec![], Some(req_step(doc, text, &Req::Formatting)));
    if let Some(r) = r {
        add(vec![], Some(req_step(doc, text, r)));
    }
    add(
        vec![],
        Some(notification_step(uris, tabs, &Event::Change { doc, text })),
    );
    add(vec![], Some(notification_step(uris, tabs, &Event::Close { doc })));
    add(
        vec![Event::Open {
            doc: other,
            text: valid,
        }],
        Some(req_step(other, valid, &Req::Formatting)),
    );
    sessions
}

struct StdioTotals {
    sessions: u64,
    compared: u64,
    died: u64,
}

/// `pin`: which pacings run with the server pinned to one CPU (see `stdio::run_session`).
fn run_sessions<F: Fn(usize) -> Vec<Session> + Sync>(
    ls: &Path,
    uris: &[lsp_types::Url; 2],
    n: usize,
    make: F,
    pin: &[Pacing],
    bag: &mut Bag,
    tot: &mut StdioTotals,
) {
    let cpus = std::thread::available_parallelism().map_or(1, |n| n.get());
    // a machinery failure stops the remaining sessions; those in flight end normally, so no
    // server process is left behind
    let failed: std::sync::Mutex<Option<String>> = std::sync::Mutex::new(None);
    // sessions mostly wait (for the server, for the 30 ms idles): run more of them than there are CPUs
    let threads = std::env::var("VLSP_THREADS")
        .ok()
        .and_then(|s| s.parse().ok())
        .unwrap_or(std::thread::available_parallelism().map_or(4, |n| n.get()) * 3);
    let done = std::sync::atomic::AtomicU64::new(0);
    let t0 = std::time::Instant::now();
    let pool = rayon::ThreadPoolBuilder::new()
        .num_threads(threads)
        .build()
        .expect("thread pool");
    let results: Vec<(u64, u64, u64, Vec<Violation>)> = pool.install(|| {
        (0..n)
            .into_par_iter()
            .map(|k| {
                let (mut sessions, mut compared, mut died, mut vs) = (0, 0, 0, vec![]);
                for s in make(k) {
                    for pacing in [Pacing::Burst, Pacing::LockStep] {
                        if failed.lock().unwrap().is_some() {
                            return (sessions, compared, died, vs);
                        }
                        let cpu = pin
                            .contains(&pacing)
                            .then(|| rayon::current_thread_index().unwrap_or(0) % cpus);
                        let r = match stdio::run_session(ls, uris, &s, pacing, cpu) {
                            Ok(r) => r,
                            Err(e) => {
                                let evs: Vec<Event> = s.steps.iter().map(|st| st.event.clone()).collect();
                                *failed.lock().unwrap() = Some(format!(
                                    "stdio session ({pacing:?}) failed: {e}: {}",
                                    truncate(&history_short(&evs), 300)
                                ));
                                return (sessions, compared, died, vs);
                            }
                        };
                        sessions += 1;
                        let d = done.fetch_add(1, std::sync::atomic::Ordering::Relaxed) + 1;
                        if d % 2000 == 0 {
                            eprintln!("#   {d} stdio sessions after {:.1}s", t0.elapsed().as_secs_f64());
                        }
                        compared += r.compared;
                        died += r.died as u64;
                        let notes: Vec<Event> = s.steps.iter().map(|st| st.event.clone()).collect();
                        for f in r.findings {
                            vs.push(Violation {
                                key: f.key,
                                detail: format!("[stdio, pacing {pacing:?}] {}", f.detail),
                                history: minimal_history(&notes, f.step),
                            });
                        }
                    }
                }
                (sessions, compared, died, vs)
            })
            .collect()
    });
    if let Some(e) = failed.into_inner().unwrap() {
        vcommon::machinery_failure(&e);
    }
    for (s, c, d, vs) in results {
        tot.sessions += s;
        tot.compared += c;
        tot.died += d;
        for v in vs {
            bag.add(v);
        }
    }
}

/// Notifications of the session plus the one request a finding is about (whole session if unknown
/// and short).
fn minimal_history(events: &[Event], step: Option<usize>) -> Vec<Event> {
    let requests = events.iter().filter(|e| matches!(e, Event::Request { .. })).count();
    if requests <= 3 {
        return events.to_vec();
    }
    events
        .iter()
        .enumerate()
        .filter(|(i, e)| !matches!(e, Event::Request { .. }) || Some(*i) == step)
        .map(|(_, e)| e.clone())
        .collect()
}

// ---------------------------------------------------------------- the check

fn check(dir: &Path) {
    let mut rep = vcommon::Report::new("C20");
    let thorough = rep.is_thorough();
    let tier = tier_bounds(thorough);
    let ls = ls_path();
    let uris = exec::doc_uris(dir);
    let t0 = std::time::Instant::now();

    // 1. reference level (pinned like a worker; unpinned again before the thread pool starts)
    pin_to_cpu(0);
    let infos: Vec<TextInfo> = ALPHABET.iter().map(|(_, t)| TextInfo::new(t)).collect();
    let mut bag = Bag::default();
    let mut cnt = Counters {
        transitions: 0,
        evaluations: 0,
        nontrivial: 0,
    };
    let (tabs, suspicious) = reference_level(dir, &infos, &mut bag, &mut cnt);
    let requests_per_text: Vec<Value> = ALPHABET
        .iter()
        .enumerate()
        .map(|(i, (id, _))| json!({"text": id, "requests": tabs.t[0][i].reqs.len()}))
        .collect();
    let mut distinct = BTreeSet::new();
    for doc in 0..2 {
        for tab in tabs.t[doc].iter() {
            distinct.insert(tab.open.to_json().to_string());
            for o in tab.outs.iter() {
                distinct.insert(o.to_json().to_string());
            }
        }
    }
    unpin();
    let t_ref = t0.elapsed().as_secs_f64();
    eprintln!(
        "# reference level done after {t_ref:.1}s: {} suspicious (doc, text, request) triples",
        suspicious.len()
    );

    // 2. + 3. history level and follow-ups in worker subprocesses
    // (development aid: VLSP_SKIP=histories,sweeps,followups skips phases; the run is then not a verdict)
    let skip = std::env::var("VLSP_SKIP").unwrap_or_default();
    let depth = if skip.contains("histories") { 0 } else { tier.depth };
    let n_workers = std::thread::available_parallelism().map_or(4, |n| n.get()).min(16);
    let exe = std::env::current_exe().expect("current exe");
    let work = vcommon::verif_dir().join(".work");
    let mut children = vec![];
    for i in 0..n_workers {
        let out = work.join(format!("vlsp-worker-{i}.json"));
        let _ = std::fs::remove_file(&out);
        let child = std::process::Command::new(&exe)
            .args(["--worker", &format!("{i}/{n_workers}"), "--depth", &depth.to_string()])
            .args(["--full-sweep-depth", &tier.full_sweep_depth.to_string(), "--out"])
            .arg(&out)
            .spawn()
            .unwrap_or_else(|e| vcommon::machinery_failure(&format!("cannot spawn worker: {e}")));
        children.push((child, out));
    }
    let (mut histories, mut follow_origins, mut skipped) = (0u64, 0u64, 0u64);
    for (mut child, out) in children {
        let status = child.wait().expect("wait for worker");
        let res: Option<Value> = std::fs::read_to_string(&out)
            .ok()
            .and_then(|s| serde_json::from_str(&s).ok());
        let Some(res) = res.filter(|_| status.success()) else {
            vcommon::machinery_failure(&format!("worker {} failed ({status})", out.display()));
        };
        histories += res["histories"].as_u64().unwrap();
        follow_origins += res["follow_up_origins"].as_u64().unwrap();
        skipped += res["skipped_known_panicking"].as_u64().unwrap();
        cnt.transitions += res["transitions"].as_u64().unwrap();
        cnt.evaluations += res["evaluations"].as_u64().unwrap();
        cnt.nontrivial += res["nontrivial"].as_u64().unwrap();
        for v in res["violations"].as_array().unwrap() {
            let viol =
                Violation::from_json(&v["v"]).unwrap_or_else(|| vcommon::machinery_failure("bad worker violation"));
            bag.add_n(viol, v["count"].as_u64().unwrap());
        }
        let _ = std::fs::remove_file(&out);
    }
    let planned = notification_histories(depth).len() as u64;
    if histories != planned || follow_origins != suspicious.len() as u64 {
        vcommon::machinery_failure(&format!("workers executed {histories} of {planned} histories"));
    }
    let states: BTreeSet<[Option<&str>; 2]> = notification_histories(tier.depth.min(2))
        .iter()
        .map(|h| final_state(h))
        .chain([[None, None]])
        .collect();
    let t_hist = t0.elapsed().as_secs_f64();
    eprintln!("# {histories} notification histories + follow-ups done after {t_hist:.1}s");

    // 4. stdio replay
    let mut tot = StdioTotals {
        sessions: 0,
        compared: 0,
        died: 0,
    };
    let stdio_hist = notification_histories(if skip.contains("sweeps") { 0 } else { tier.stdio_depth });
    // lock-step sessions run with the server pinned to one CPU, burst sessions with its threads
    // truly parallel
    run_sessions(
        &ls,
        &uris,
        stdio_hist.len(),
        |k| sweep_session(&uris, &tabs, &stdio_hist[k]).into_iter().collect(),
        &[Pacing::LockStep],
        &mut bag,
        &mut tot,
    );
    let t_sweep = t0.elapsed().as_secs_f64();
    eprintln!(
        "# stdio sweeps done after {t_sweep:.1}s: {} sessions, {} answers compared",
        tot.sessions, tot.compared
    );
    let stdio_suspicious: Vec<_> = suspicious.iter().filter(|s| s.0 < tier.stdio_follow_up_docs).collect();
    run_sessions(
        &ls,
        &uris,
        if skip.contains("followups") {
            0
        } else {
            stdio_suspicious.len()
        },
        |k| {
            let (doc, ti, r) = stdio_suspicious[k];
            let mut sessions = follow_up_sessions(&uris, &tabs, *doc, *ti, r);
            if !tier.stdio_all_follow_up_classes {
                sessions = vec![sessions.swap_remove(k % sessions.len())];
            }
            sessions
        },
        &[Pacing::LockStep],
        &mut bag,
        &mut tot,
    );
    let t_all = t0.elapsed().as_secs_f64();

    // samples
    let sample = |h: Vec<Event>| {
        let (_, outs) = Exec::run(dir, &h);
        json!({"history": history_short(&h), "replies": outs.iter().map(|o| o.to_json()).collect::<Vec<_>>()})
    };
    let (valid, redef, pratt) = (ALPHABET[0].1, ALPHABET[3].1, ALPHABET[1].1);
    let samples = vec![
        sample(vec![
            Event::Open { doc: 0, text: valid },
            Event::Request {
                doc: 0,
                req: Req::Hover(5, 3),
            },
            Event::Request {
                doc: 0,
                req: Req::Definition(5, 6),
            },
        ]),
        sample(vec![
            Event::Open { doc: 1, text: redef },
            Event::Change { doc: 1, text: pratt },
            Event::Request {
                doc: 1,
                req: Req::References(3, 0, true),
            },
        ]),
        sample(vec![
            Event::Open { doc: 0, text: valid },
            Event::Open {
                doc: 1,
                text: ALPHABET[5].1,
            },
            Event::Close { doc: 0 },
            Event::Request {
                doc: 1,
                req: Req::Formatting,
            },
        ]),
    ];

    let keys: Vec<Value> = bag
        .by_key
        .iter()
        .map(|(k, (n, v))| json!({"key": k, "occurrences": n, "minimal_history": history_short(&v.history)}))
        .collect();
    for (key, (n, v)) in bag.by_key.iter() {
        rep.violation(vcommon::Violation {
            key: key.clone(),
            summary: format!("{key} [{n} occurrence(s)] minimal history: {} -- {}", history_short(&v.history), truncate(&v.detail, 400)),
            replay: json!({"history": history_json(&v.history), "short": history_short(&v.history), "detail": v.detail, "occurrences": n}),
        });
    }
    rep.assumptions.push("replies of lelwel-ls are schedule independent once a handler has returned (each handler blocks on the analysis thread's reply); the two stdio pacings probe the only timing-sensitive point, the step after a swallowed panic".into());
    rep.assumptions.push("the front end (Parser, SemanticPass, format) is the reference for diagnostics, sets and formatted text; its own correctness is the subject of other properties".into());
    let coverage = json!({
        "states": states.len(),
        "histories": histories,
        "transitions": cnt.transitions,
        "traces_validated_against_impl": tot.compared,
        "evaluations": cnt.evaluations,
        "distinct_nontrivial": cnt.nontrivial,
        "rule": "in-process steps judged by the oracle whose reply carries information: non-empty diagnostics / references / completion list, or a hover, definition or formatting result",
        "distinct_outcomes": distinct.len(),
        "samples": samples,
        "exhaustive": true,
        "bounds": {
            "documents": 2, "texts": ALPHABET.len(), "notification_history_depth": tier.depth,
            "full_sweep_depth": tier.full_sweep_depth, "stdio_history_depth": tier.stdio_depth,
            "stdio_all_follow_up_classes_per_suspicious_step": tier.stdio_all_follow_up_classes,
            "stdio_follow_up_documents": tier.stdio_follow_up_docs,
            "positions": format!("every line, characters 0..=len+{}, plus line count with characters 0,1", texts::PAST_END),
            "requests_per_text": requests_per_text,
        },
        "oracle_demands_at_reference_level": oracle::DEMANDS.iter().zip(oracle::DEMAND_COUNT.iter()).map(|(n, c)| (n.to_string(), json!(c.load(std::sync::atomic::Ordering::Relaxed)))).collect::<serde_json::Map<_, _>>(),
        "follow_up_origins": follow_origins,
        "sweep_requests_skipped_because_violating_at_reference_level": skipped,
        "stdio_sessions": tot.sessions,
        "stdio_sessions_server_died": tot.died,
        "violation_keys": keys,
        "wall_s": {"reference": t_ref, "histories": t_hist - t_ref, "stdio_sweeps": t_sweep - t_hist, "stdio_follow_ups": t_all - t_sweep},
    });
    let code = rep.finish(coverage);
    if !skip.is_empty() {
        vcommon::machinery_failure("VLSP_SKIP is set: partial run, no verdict");
    }
    std::process::exit(code);
}

fn truncate(s: &str, n: usize) -> String {
    if s.chars().count() <= n {
        s.to_string()
    } else {
        format!("{}...", s.chars().take(n).collect::<String>())
    }
}

// ---------------------------------------------------------------- replay

/// Judges one arbitrary history (requests included) in-process with the full oracle.
fn judge_history(dir: &Path, h: &[Event], bag: &mut Bag) -> Vec<Outcome> {
    let uris = exec::doc_uris(dir);
    let parser_uri = exec::parser_rs_uri(dir);
    let mut cnt = Counters {
        transitions: 0,
        evaluations: 0,
        nontrivial: 0,
    };
    let mut infos: HashMap<&'static str, TextInfo> = HashMap::new();
    let mut tables: HashMap<(usize, &'static str), RefTable> = HashMap::new();
    for e in h {
        if let Event::Open { doc, text } | Event::Change { doc, text } = e {
            infos.entry(text).or_insert_with(|| TextInfo::new(text));
            tables
                .entry((*doc, text))
                .or_insert_with(|| build_ref(dir, *doc, text, &mut cnt));
        }
    }
    let mut ex = Exec::new(dir);
    let mut state: [Option<&'static str>; 2] = [None, None];
    let mut tainted: [Option<String>; 2] = [None, None];
    let mut last_noti = "start";
    let mut outs = vec![];
    for (i, e) in h.iter().enumerate() {
        let prefix = &h[..=i];
        if matches!(e, Event::Request { .. } | Event::Change { .. } | Event::Close { .. }) && state[e.doc()].is_none() {
            vcommon::machinery_failure("replay history addresses a document that is not open (outside the protocol)");
        }
        let o = ex.step(e);
        outs.push(o.clone());
        if o.reply.is_none() {
            match &tainted[e.doc()] {
                Some(origin) => bag.add(Violation {
                    key: format!("server-dies-after-swallowed-panic:{origin}"),
                    detail: format!("{} panics on the main thread: {:?}", e.kind(), o.panics.last()),
                    history: prefix.to_vec(),
                }),
                None => judge_liveness(e, &o, prefix, bag),
            }
            break;
        }
        judge_liveness(e, &o, prefix, bag);
        if !o.clean() {
            tainted[e.doc()].get_or_insert(origin_key(e, &o));
        }
        match e {
            Event::Open { doc, text } | Event::Change { doc, text } => {
                state[*doc] = Some(*text);
                last_noti = e.kind();
                tainted[*doc] = (!o.clean()).then(|| origin_key(e, &o));
                bag.findings(oracle::check_diagnostics(&infos[text], &uris[*doc], &o), prefix);
                if !same_outcome(&o, &tables[&(*doc, *text)].open) {
                    bag.add(Violation {
                        key: format!("not-latest-text:{}:diagnostics", e.kind()),
                        detail: o.to_json().to_string(),
                        history: prefix.to_vec(),
                    });
                }
            }
            Event::Close { doc } => {
                state[*doc] = None;
                tainted[*doc] = None;
                last_noti = "close";
            }
            Event::Request { doc, req } => {
                let text = state[*doc].unwrap();
                let tab = &tables[&(*doc, text)];
                let lookup = |r: &Req| tab.get(r);
                let cx = Ctx {
                    ti: &infos[text],
                    uri: &uris[*doc],
                    parser_uri: &parser_uri,
                    parser_rs: exec::PARSER_RS,
                    lookup: &lookup,
                };
                bag.findings(oracle::check_reply(&cx, req, &o), prefix);
                if let Some(ro) = tab.get(req) {
                    if !same_outcome(&o, ro) && ro.clean() {
                        bag.add(Violation {
                            key: format!("not-latest-text:{last_noti}:{}", req.kind()),
                            detail: format!("answered {} but a fresh server answers {}", o.to_json(), ro.to_json()),
                            history: prefix.to_vec(),
                        });
                    }
                }
            }
        }
    }
    outs
}

fn replay(dir: &Path, path: &Path) -> i32 {
    let v: Value = std::fs::read_to_string(path)
        .ok()
        .and_then(|s| serde_json::from_str(&s).ok())
        .unwrap_or_else(|| vcommon::machinery_failure(&format!("cannot read replay {}", path.display())));
    let h: Vec<Event> = v["replay"]["history"]
        .as_array()
        .and_then(|a| a.iter().map(Event::from_json).collect::<Option<Vec<_>>>())
        .unwrap_or_else(|| vcommon::machinery_failure("replay file has no history"));
    println!("# replaying {}", history_short(&h));
    let mut bag = Bag::default();
    let outs = judge_history(dir, &h, &mut bag);
    for (e, o) in h.iter().zip(outs.iter()) {
        println!(
            "#   in-process {} -> {}",
            history_short(std::slice::from_ref(e)),
            truncate(&o.to_json().to_string(), 300)
        );
    }
    // stdio: same history, expected answers = the in-process ones; origin = first unclean step
    let uris = exec::doc_uris(dir);
    let mut origin = None;
    let mut steps = vec![];
    for (e, o) in h.iter().zip(outs.iter()) {
        let expect = match e {
            Event::Open { doc, .. } | Event::Change { doc, .. } => diag_params(&uris[*doc], o),
            Event::Request { .. } => o.reply.as_ref().map(|r| r.to_json()),
            Event::Close { .. } => None,
        };
        if !o.clean() && origin.is_none() {
            origin = Some(origin_key(e, o));
        }
        steps.push(Step {
            event: e.clone(),
            expect,
            idle_after: h.len() <= 50,
        });
    }
    let session = Session { steps, origin };
    let ls = ls_path();
    for pacing in [Pacing::Burst, Pacing::LockStep] {
        let pin = std::env::var("VLSP_PIN").ok().and_then(|s| s.parse().ok());
        let t = std::time::Instant::now();
        let r =
            stdio::run_session(&ls, &uris, &session, pacing, pin).unwrap_or_else(|e| vcommon::machinery_failure(&e));
        println!(
            "#   stdio {pacing:?}: exit {:?}, {} answers compared, {} finding(s), {:.3}s",
            r.exit_code,
            r.compared,
            r.findings.len(),
            t.elapsed().as_secs_f64()
        );
        for f in r.findings {
            bag.add(Violation {
                key: f.key,
                detail: format!("[stdio, pacing {pacing:?}] {}", f.detail),
                history: h.clone(),
            });
        }
    }
    for (k, (n, v)) in bag.by_key.iter() {
        println!("# {k} [{n}] {}", truncate(&v.detail, 400));
    }
    if bag.by_key.is_empty() {
        println!("C20 replay: history no longer fails");
        0
    } else {
        println!("VIOLATION property=C20 replay={}", path.display());
        1
    }
}
