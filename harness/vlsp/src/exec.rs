//! In-process executor: owns a real `lelwel::ide::Cache` and performs exactly the call sequences
//! of the handlers in `src/bin/lelwel-ls.rs`. A process-wide panic hook records panics of ANY
//! thread, so a panic that the reply channel swallows is seen at the step where it happens.

use crate::texts::{Event, Req};
use lelwel::ide::Cache;
use lsp_types::*;
use serde_json::{json, Value};
use std::path::{Path, PathBuf};
use std::sync::Mutex;

#[derive(Clone, Debug, PartialEq)]
pub struct PanicRec {
    pub thread: String,
    pub msg: String,
    /// normalised `file:line` (crate-relative, e.g. `src/ide/mod.rs:294`)
    pub loc: String,
}

static PANICS: Mutex<Vec<PanicRec>> = Mutex::new(Vec::new());

/// `/repo/src/ide/mod.rs` -> `src/ide/mod.rs`; registry paths -> `<crate-version>/src/lib.rs`.
pub fn normalise_path(file: &str) -> String {
    if let Some(i) = file.find("/registry/src/") {
        let rest = &file[i + "/registry/src/".len()..];
        return rest.split_once('/').map_or(rest, |x| x.1).to_string();
    }
    if let Some(i) = file.rfind("/src/") {
        if !file.contains("/rustc/") && !file.contains("/rustlib/") {
            return file[i + 1..].to_string();
        }
    }
    file.to_string()
}

pub fn install_panic_hook() {
    std::panic::set_hook(Box::new(|info| {
        let msg = if let Some(s) = info.payload().downcast_ref::<&str>() {
            s.to_string()
        } else if let Some(s) = info.payload().downcast_ref::<String>() {
            s.clone()
        } else {
            "<non-string panic payload>".to_string()
        };
        let loc = info.location().map_or("?".to_string(), |l| {
            format!("{}:{}", normalise_path(l.file()), l.line())
        });
        let t = std::thread::current();
        let thread = format!("{}/{:?}", t.name().unwrap_or("<unnamed>"), t.id());
        if let Ok(mut p) = PANICS.lock() {
            p.push(PanicRec { thread, msg, loc });
        }
    }));
}

pub fn discard_panics() {
    let _ = take_panics();
}

fn take_panics() -> Vec<PanicRec> {
    std::mem::take(&mut *PANICS.lock().unwrap())
}

/// What the handler would send back.
#[derive(Clone, Debug, PartialEq)]
pub enum Reply {
    Diags(Vec<Diagnostic>),
    Hover(Option<Hover>),
    Definition(Option<GotoDefinitionResponse>),
    References(Option<Vec<Location>>),
    Completion(Option<CompletionResponse>),
    Formatting(Option<Vec<TextEdit>>),
    Closed,
}

impl Reply {
    /// The `result` member of the response (requests) / the diagnostics array (open, change).
    pub fn to_json(&self) -> Value {
        match self {
            Reply::Diags(d) => serde_json::to_value(d).unwrap(),
            Reply::Hover(x) => serde_json::to_value(x).unwrap(),
            Reply::Definition(x) => serde_json::to_value(x).unwrap(),
            Reply::References(x) => serde_json::to_value(x).unwrap(),
            Reply::Completion(x) => serde_json::to_value(x).unwrap(),
            Reply::Formatting(x) => serde_json::to_value(x).unwrap(),
            Reply::Closed => Value::Null,
        }
    }
    /// Non-trivial = carries information (used for the coverage counter only).
    pub fn nontrivial(&self) -> bool {
        match self {
            Reply::Diags(d) => !d.is_empty(),
            Reply::Hover(x) => x.is_some(),
            Reply::Definition(x) => x.is_some(),
            Reply::References(x) => x.as_ref().is_some_and(|v| !v.is_empty()),
            Reply::Completion(x) => matches!(x, Some(CompletionResponse::Array(v)) if !v.is_empty()),
            Reply::Formatting(x) => x.is_some(),
            Reply::Closed => false,
        }
    }
}

/// Result of one step. `reply == None` means the call did not return: it panicked on the calling
/// thread, which in `lelwel-ls` is the main thread, i.e. the server process dies.
#[derive(Clone, Debug, PartialEq)]
pub struct Outcome {
    pub reply: Option<Reply>,
    pub panics: Vec<PanicRec>,
}

impl Outcome {
    pub fn clean(&self) -> bool {
        self.reply.is_some() && self.panics.is_empty()
    }
    pub fn to_json(&self) -> Value {
        json!({
            "reply": self.reply.as_ref().map(|r| r.to_json()),
            "returned": self.reply.is_some(),
            "panics": self.panics.iter().map(|p| json!({"thread": p.thread, "msg": p.msg, "loc": p.loc})).collect::<Vec<_>>(),
        })
    }
}

pub struct Exec {
    cache: Option<Cache>,
    pub uris: [Url; 2],
    /// set once a step panicked on the calling thread; the real server would be gone
    pub dead: bool,
}

/// Scratch directory holding a.llw's and b.llw's (never written) locations plus a `parser.rs`
/// with the predicate/action implementations that go-to-definition searches for.
pub const PARSER_RS: &str =
    "impl Parser {\n    fn predicate_s_1(&self) -> bool {\n        true\n    }\n    fn action_s_1(&mut self) {}\n}\n";

pub fn prepare_dir(dir: &Path) {
    std::fs::create_dir_all(dir).expect("create document dir");
    std::fs::write(dir.join("parser.rs"), PARSER_RS).expect("write parser.rs");
}

pub fn doc_uris(dir: &Path) -> [Url; 2] {
    [
        Url::from_file_path(dir.join("a.llw")).expect("uri a"),
        Url::from_file_path(dir.join("b.llw")).expect("uri b"),
    ]
}

pub fn parser_rs_uri(dir: &Path) -> Url {
    Url::from_file_path(dir.join("parser.rs")).unwrap()
}

pub fn docs_dir() -> PathBuf {
    vcommon::verif_dir().join(".work").join("vlsp-docs")
}

fn position(l: u32, c: u32) -> Position {
    Position::new(l, c)
}

pub fn formatting_options() -> FormattingOptions {
    FormattingOptions {
        tab_size: 4,
        insert_spaces: true,
        properties: Default::default(),
        trim_trailing_whitespace: None,
        insert_final_newline: None,
        trim_final_newlines: None,
    }
}

impl Exec {
    pub fn new(dir: &Path) -> Exec {
        Exec {
            cache: Some(Cache::default()),
            uris: doc_uris(dir),
            dead: false,
        }
    }

    /// Runs a whole history on a fresh cache and returns the outcome of every step.
    pub fn run(dir: &Path, history: &[Event]) -> (Exec, Vec<Outcome>) {
        let mut ex = Exec::new(dir);
        let outs = history.iter().map(|e| ex.step(e)).collect();
        (ex, outs)
    }

    pub fn step(&mut self, ev: &Event) -> Outcome {
        if self.dead {
            return Outcome {
                reply: None,
                panics: vec![],
            };
        }
        let _ = take_panics();
        let uri = self.uris[ev.doc()].clone();
        let cache = self.cache.as_mut().unwrap();
        let res = std::panic::catch_unwind(std::panic::AssertUnwindSafe(|| match ev {
            // DidOpenTextDocument and DidChangeTextDocument handlers are identical
            Event::Open { text, .. } | Event::Change { text, .. } => {
                cache.invalidate(&uri);
                cache.analyze(uri.clone(), text.to_string());
                Reply::Diags(cache.get_diagnostics(&uri))
            }
            Event::Close { .. } => {
                cache.invalidate(&uri);
                Reply::Closed
            }
            Event::Request { req, .. } => match *req {
                Req::Hover(l, c) => Reply::Hover(cache.hover(&uri, position(l, c)).map(|(msg, range)| Hover {
                    contents: HoverContents::Markup(MarkupContent {
                        kind: MarkupKind::Markdown,
                        value: msg,
                    }),
                    range: Some(range),
                })),
                Req::Definition(l, c) => Reply::Definition(
                    cache
                        .goto_definition(&uri, position(l, c))
                        .map(GotoDefinitionResponse::Scalar),
                ),
                Req::References(l, c, with_decl) => {
                    Reply::References(Some(cache.references(&uri, position(l, c), with_decl)))
                }
                Req::Completion(l, c) => Reply::Completion(cache.completion(CompletionParams {
                    text_document_position: TextDocumentPositionParams {
                        text_document: TextDocumentIdentifier { uri: uri.clone() },
                        position: position(l, c),
                    },
                    work_done_progress_params: Default::default(),
                    partial_result_params: Default::default(),
                    context: None,
                })),
                Req::Formatting => Reply::Formatting(cache.formatting(DocumentFormattingParams {
                    text_document: TextDocumentIdentifier { uri: uri.clone() },
                    options: formatting_options(),
                    work_done_progress_params: Default::default(),
                })),
            },
        }));
        let panics = take_panics();
        match res {
            Ok(reply) => Outcome {
                reply: Some(reply),
                panics,
            },
            Err(_) => {
                self.dead = true;
                // leak nothing: dropping the cache closes the channels, the analysis threads end
                self.cache = None;
                Outcome { reply: None, panics }
            }
        }
    }
}
