//! JSON-RPC driver for the real `lelwel-ls` binary: Content-Length framing over the child's
//! stdin/stdout, two pacings, and the comparison of everything the server sends with the
//! in-process replies.

use crate::oracle::Finding;
use crate::texts::{Event, Req};
use lsp_types::Url;
use serde_json::{json, Value};
use std::io::{BufRead, BufReader, Read, Write};
use std::process::{Command, Stdio};
use std::sync::mpsc;
use std::time::{Duration, Instant};

#[derive(Clone, Copy, Debug, PartialEq)]
pub enum Pacing {
    /// all messages (initialize ... exit) are written back-to-back, nothing is awaited
    Burst,
    /// every message waits for the answer to the previous one; 30 ms idle at the marked steps
    LockStep,
}

pub const IDLE: Duration = Duration::from_millis(30);
const TIMEOUT: Duration = Duration::from_secs(20);

pub struct Step {
    pub event: Event,
    /// expected `result` (requests) or `params` of publishDiagnostics (open, change)
    pub expect: Option<Value>,
    /// lock-step pacing idles after this step (after its answer arrived)
    pub idle_after: bool,
}

pub struct Session {
    pub steps: Vec<Step>,
    /// key of a swallowed panic this session deliberately contains (follow-up sessions)
    pub origin: Option<String>,
}

#[derive(Default)]
pub struct SessionResult {
    pub findings: Vec<Finding>,
    /// answers compared with the in-process reply
    pub compared: u64,
    pub died: bool,
    pub exit_code: Option<i32>,
    pub stderr: String,
}

fn frame(v: &Value) -> Vec<u8> {
    let body = serde_json::to_string(v).unwrap();
    format!("Content-Length: {}\r\n\r\n{}", body.len(), body).into_bytes()
}

fn message(uris: &[Url; 2], ev: &Event, id: u64, version: i32) -> Value {
    let uri = uris[ev.doc()].as_str();
    let req = |method: &str, params: Value| json!({"jsonrpc": "2.0", "id": id, "method": method, "params": params});
    let noti = |method: &str, params: Value| json!({"jsonrpc": "2.0", "method": method, "params": params});
    let tdp = |l: u32, c: u32| json!({"textDocument": {"uri": uri}, "position": {"line": l, "character": c}});
    match ev {
        Event::Open { text, .. } => noti(
            "textDocument/didOpen",
            json!({"textDocument": {"uri": uri, "languageId": "lelwel", "version": version, "text": text}}),
        ),
        Event::Change { text, .. } => noti(
            "textDocument/didChange",
            json!({"textDocument": {"uri": uri, "version": version}, "contentChanges": [{"text": text}]}),
        ),
        Event::Close { .. } => noti("textDocument/didClose", json!({"textDocument": {"uri": uri}})),
        Event::Request { req: r, .. } => match *r {
            Req::Hover(l, c) => req("textDocument/hover", tdp(l, c)),
            Req::Definition(l, c) => req("textDocument/definition", tdp(l, c)),
            Req::Completion(l, c) => req("textDocument/completion", tdp(l, c)),
            Req::References(l, c, w) => {
                let mut p = tdp(l, c);
                p["context"] = json!({"includeDeclaration": w});
                req("textDocument/references", p)
            }
            Req::Formatting => req(
                "textDocument/formatting",
                json!({"textDocument": {"uri": uri}, "options": {"tabSize": 4, "insertSpaces": true}}),
            ),
        },
    }
}

/// What we wait for after a message in lock-step mode.
#[derive(Clone, Copy, PartialEq)]
enum Await {
    Response(u64),
    Diagnostics,
    Nothing,
}

fn reader(stdout: std::process::ChildStdout, tx: mpsc::Sender<Value>) {
    let mut r = BufReader::new(stdout);
    loop {
        let mut len = None;
        loop {
            let mut line = String::new();
            match r.read_line(&mut line) {
                Ok(0) | Err(_) => return,
                Ok(_) => {}
            }
            let line = line.trim_end();
            if line.is_empty() {
                break;
            }
            if let Some(v) = line.strip_prefix("Content-Length:") {
                len = v.trim().parse::<usize>().ok();
            }
        }
        let Some(len) = len else { return };
        let mut body = vec![0u8; len];
        if r.read_exact(&mut body).is_err() {
            return;
        }
        let Ok(v) = serde_json::from_slice::<Value>(&body) else { return };
        if tx.send(v).is_err() {
            return;
        }
    }
}

/// Runs one session. `Err` is a machinery failure (the server hangs, cannot be spawned, ...).
pub fn run_session(ls: &std::path::Path, uris: &[Url; 2], s: &Session, pacing: Pacing) -> Result<SessionResult, String> {
    // RUST_BACKTRACE=0: with a backtrace every panic in the server costs seconds of symbolisation
    let mut child = Command::new(ls)
        .env("RUST_BACKTRACE", "0")
        .stdin(Stdio::piped())
        .stdout(Stdio::piped())
        .stderr(Stdio::piped())
        .spawn()
        .map_err(|e| format!("cannot spawn {}: {e}", ls.display()))?;
    let mut stdin = child.stdin.take().unwrap();
    let stdout = child.stdout.take().unwrap();
    let mut stderr = child.stderr.take().unwrap();
    let (tx, rx) = mpsc::channel::<Value>();
    let rd = std::thread::spawn(move || reader(stdout, tx));
    let er = std::thread::spawn(move || {
        let mut s = String::new();
        let _ = stderr.read_to_string(&mut s);
        s
    });

    // id 0 = initialize, ids 1..=n = steps (notifications simply do not use theirs), n+1 = shutdown
    let n = s.steps.len() as u64;
    let mut msgs: Vec<(Value, Await, bool)> = vec![
        (
            json!({"jsonrpc": "2.0", "id": 0, "method": "initialize",
                   "params": {"processId": null, "rootUri": null, "capabilities": {}}}),
            Await::Response(0),
            false,
        ),
        (json!({"jsonrpc": "2.0", "method": "initialized", "params": {}}), Await::Nothing, false),
    ];
    for (i, st) in s.steps.iter().enumerate() {
        let id = i as u64 + 1;
        let aw = match st.event {
            Event::Open { .. } | Event::Change { .. } => Await::Diagnostics,
            Event::Close { .. } => Await::Nothing,
            Event::Request { .. } => Await::Response(id),
        };
        msgs.push((message(uris, &st.event, id, id as i32), aw, st.idle_after || aw == Await::Nothing));
    }
    msgs.push((json!({"jsonrpc": "2.0", "id": n + 1, "method": "shutdown", "params": null}), Await::Response(n + 1), false));
    msgs.push((json!({"jsonrpc": "2.0", "method": "exit", "params": null}), Await::Nothing, false));

    let mut received: Vec<Value> = vec![];
    let mut eof = false;
    let hang = |child: &mut std::process::Child, what: &str, received: &Vec<Value>| -> String {
        let state = format!("{:?}", child.try_wait());
        let mut threads = String::new();
        if let Ok(rd) = std::fs::read_dir(format!("/proc/{}/task", child.id())) {
            for t in rd.flatten() {
                let f = |n: &str| std::fs::read_to_string(t.path().join(n)).unwrap_or_default().trim().replace('\n', " < ");
                threads.push_str(&format!(" [{} wchan={} syscall={} stack={}]", f("comm"), f("wchan"), f("syscall"), f("stack")));
            }
        }
        let _ = child.kill();
        let _ = child.wait();
        format!(
            "lelwel-ls neither answered nor exited within {TIMEOUT:?} ({what}; process state before kill {state}; {} messages received, threads:{threads}, last: {})",
            received.len(),
            received.last().map_or("-".to_string(), |v| v.to_string().chars().take(200).collect())
        )
    };
    match pacing {
        Pacing::Burst => {
            let mut buf = vec![];
            for (m, _, _) in msgs.iter() {
                buf.extend(frame(m));
            }
            let _ = stdin.write_all(&buf).and_then(|_| stdin.flush());
        }
        Pacing::LockStep => {
            let mut diags_seen = 0usize;
            let mut diags_wanted = 0usize;
            for (m, aw, idle) in msgs.iter() {
                if stdin.write_all(&frame(m)).and_then(|_| stdin.flush()).is_err() {
                    break; // the server is gone; the analysis below says so
                }
                if *aw == Await::Diagnostics {
                    diags_wanted += 1;
                }
                let satisfied = |received: &Vec<Value>, diags_seen: usize| match aw {
                    Await::Nothing => true,
                    Await::Diagnostics => diags_seen >= diags_wanted,
                    Await::Response(id) => received.iter().any(|v| v.get("method").is_none() && v["id"] == json!(id)),
                };
                while !eof && !satisfied(&received, diags_seen) {
                    match rx.recv_timeout(TIMEOUT) {
                        Ok(v) => {
                            if v["method"] == "textDocument/publishDiagnostics" {
                                diags_seen += 1;
                            }
                            received.push(v);
                        }
                        Err(mpsc::RecvTimeoutError::Disconnected) => eof = true,
                        Err(mpsc::RecvTimeoutError::Timeout) => return Err(hang(&mut child, &format!("lock-step wait after sending {m}"), &received)),
                    }
                }
                if eof {
                    break;
                }
                if *idle {
                    std::thread::sleep(IDLE);
                }
            }
        }
    }
    drop(stdin);
    while !eof {
        match rx.recv_timeout(TIMEOUT) {
            Ok(v) => received.push(v),
            Err(mpsc::RecvTimeoutError::Disconnected) => eof = true,
            Err(mpsc::RecvTimeoutError::Timeout) => return Err(hang(&mut child, "waiting for end of output", &received)),
        }
    }
    let start = Instant::now();
    let status = loop {
        match child.try_wait() {
            Ok(Some(st)) => break st,
            Ok(None) if start.elapsed() > TIMEOUT => return Err(hang(&mut child, "waiting for exit", &received)),
            Ok(None) => std::thread::sleep(Duration::from_millis(1)),
            Err(e) => return Err(format!("wait failed: {e}")),
        }
    };
    let _ = rd.join();
    let stderr = er.join().unwrap_or_default();

    // ---- analysis ----
    let mut res = SessionResult { exit_code: status.code(), stderr, ..Default::default() };
    let response = |id: u64| -> Vec<&Value> {
        received.iter().filter(|v| v.get("method").is_none() && v["id"] == json!(id)).collect()
    };
    let shutdown_answered = response(n + 1).len() == 1;
    res.died = status.code() != Some(0) || !shutdown_answered;
    let tid = |ev: &Event| match ev {
        Event::Open { text, .. } | Event::Change { text, .. } => crate::texts::text_id(text),
        _ => String::new(),
    };
    let diags: Vec<&Value> = received.iter().filter(|v| v["method"] == "textDocument/publishDiagnostics").collect();
    let mut diag_idx = 0;
    let mut first_unanswered: Option<&Event> = None;
    for (i, st) in s.steps.iter().enumerate() {
        let id = i as u64 + 1;
        match &st.event {
            Event::Open { .. } | Event::Change { .. } => {
                match diags.get(diag_idx) {
                    None => {
                        first_unanswered.get_or_insert(&st.event);
                    }
                    Some(d) => {
                        if let Some(exp) = &st.expect {
                            res.compared += 1;
                            if d["params"] != *exp {
                                res.findings.push(Finding {
                                    key: format!("stdio-diag-mismatch:{}", tid(&st.event)),
                                    detail: format!("step {i}: server published {} but in-process published {}", d["params"], exp),
                                    step: Some(i),
                                });
                            }
                        }
                    }
                }
                diag_idx += 1;
            }
            Event::Close { .. } => {}
            Event::Request { req, .. } => {
                let rs = response(id);
                if rs.is_empty() {
                    first_unanswered.get_or_insert(&st.event);
                } else if rs.len() > 1 {
                    res.findings.push(Finding {
                        key: format!("stdio-duplicate-reply:{}", req.kind()),
                        detail: format!("step {i}: {} responses for request id {id}", rs.len()),
                        step: Some(i),
                    });
                } else if rs[0].get("error").is_some() {
                    res.findings.push(Finding {
                        key: format!("stdio-error-reply:{}", req.kind()),
                        detail: format!("step {i}: {}", rs[0]),
                        step: Some(i),
                    });
                } else if let Some(exp) = &st.expect {
                    res.compared += 1;
                    let got = rs[0].get("result").cloned().unwrap_or(Value::Null);
                    if got != *exp {
                        res.findings.push(Finding {
                            key: format!("stdio-reply-mismatch:{}", req.kind()),
                            detail: format!("step {i} ({:?}): server answered {got} but in-process answered {exp}", req),
                            step: Some(i),
                        });
                    }
                }
            }
        }
    }
    if diags.len() > diag_idx {
        res.findings.push(Finding::new("stdio-unexpected-message".into(), "more publishDiagnostics than open/change".into()));
    }
    for v in received.iter() {
        let known_noti = v["method"] == "textDocument/publishDiagnostics";
        let known_resp = v.get("method").is_none() && v["id"].as_u64().is_some_and(|id| id <= n + 1);
        if !known_noti && !known_resp {
            res.findings.push(Finding::new("stdio-unexpected-message".into(), v.to_string()));
        }
    }
    if response(0).len() != 1 {
        res.findings.push(Finding::new("stdio-no-initialize-reply".into(), String::new()));
    }
    if res.died {
        let panic_line = res
            .stderr
            .lines()
            .filter(|l| l.contains("panicked at"))
            .collect::<Vec<_>>()
            .join(" | ");
        let after = first_unanswered.map_or("shutdown".to_string(), |e| e.kind().to_string());
        let key = match &s.origin {
            Some(o) => format!("server-dies-after-swallowed-panic:{o}"),
            None => format!("stdio-server-died:{after}"),
        };
        res.findings.push(Finding {
            key,
            detail: format!(
                "lelwel-ls exit status {:?}, shutdown answered: {shutdown_answered}, first unanswered step: {after}; stderr: {panic_line}",
                status.code()
            ),
            step: None,
        });
    }
    if let Some(o) = &s.origin {
        // whatever goes wrong after a swallowed panic (empty answers while the dead thread is not
        // yet noticed, death of the server) is the one defect "nothing recovers from it"
        for f in res.findings.iter_mut() {
            if ["stdio-reply-mismatch", "stdio-diag-mismatch", "stdio-error-reply", "stdio-server-died"].iter().any(|p| f.key.starts_with(p)) {
                f.detail = format!("{}: {}", f.key, f.detail);
                f.key = format!("server-dies-after-swallowed-panic:{o}");
            }
        }
    }
    Ok(res)
}
