//! JSON-RPC driver for the real `lelwel-ls` binary: Content-Length framing over the child's
//! stdin/stdout, two pacings, and the comparison of everything the server sends with the
//! in-process replies.

use crate::oracle::Finding;
use crate::texts::{Event, Req};
use lsp_types::Url;
use serde_json::{json, Value};
use std::io::{Read, Write};
use std::process::{Command, Stdio};
use std::time::{Duration, Instant};

#[derive(Clone, Copy, Debug, PartialEq)]
pub enum Pacing {
    /// all messages (initialize ... exit) are written back-to-back, nothing is awaited
    Burst,
    /// every message waits for the answer to the previous one; 30 ms idle at the marked steps
    LockStep,
}

pub const IDLE: Duration = Duration::from_millis(30);
const TIMEOUT: Duration = Duration::from_secs(20);

pub struct Step {
    pub event: Event,
    /// expected `result` (requests) or `params` of publishDiagnostics (open, change)
    pub expect: Option<Value>,
    /// lock-step pacing idles after this step (after its answer arrived)
    pub idle_after: bool,
}

pub struct Session {
    pub steps: Vec<Step>,
    /// key of a swallowed panic this session deliberately contains (follow-up sessions)
    pub origin: Option<String>,
}

#[derive(Default)]
pub struct SessionResult {
    pub findings: Vec<Finding>,
    /// answers compared with the in-process reply
    pub compared: u64,
    pub died: bool,
    pub exit_code: Option<i32>,
    pub stderr: String,
}

fn frame(v: &Value) -> Vec<u8> {
    let body = serde_json::to_string(v).unwrap();
    format!("Content-Length: {}\r\n\r\n{}", body.len(), body).into_bytes()
}

fn message(uris: &[Url; 2], ev: &Event, id: u64, version: i32) -> Value {
    let uri = uris[ev.doc()].as_str();
    let req = |method: &str, params: Value| json!({"jsonrpc": "2.0", "id": id, "method": method, "params": params});
    let noti = |method: &str, params: Value| json!({"jsonrpc": "2.0", "method": method, "params": params});
    let tdp = |l: u32, c: u32| json!({"textDocument": {"uri": uri}, "position": {"line": l, "character": c}});
    match ev {
        Event::Open { text, .. } => noti(
            "textDocument/didOpen",
            json!({"textDocument": {"uri": uri, "languageId": "lelwel", "version": version, "text": text}}),
        ),
        Event::Change { text, .. } => noti(
            "textDocument/didChange",
            json!({"textDocument": {"uri": uri, "version": version}, "contentChanges": [{"text": text}]}),
        ),
        Event::Close { .. } => noti("textDocument/didClose", json!({"textDocument": {"uri": uri}})),
        Event::Request { req: r, .. } => match *r {
            Req::Hover(l, c) => req("textDocument/hover", tdp(l, c)),
            Req::Definition(l, c) => req("textDocument/definition", tdp(l, c)),
            Req::Completion(l, c) => req("textDocument/completion", tdp(l, c)),
            Req::References(l, c, w) => {
                let mut p = tdp(l, c);
                p["context"] = json!({"includeDeclaration": w});
                req("textDocument/references", p)
            }
            Req::Formatting => req(
                "textDocument/formatting",
                json!({"textDocument": {"uri": uri}, "options": {"tabSize": 4, "insertSpaces": true}}),
            ),
        },
    }
}

/// What we wait for after a message in lock-step mode.
#[derive(Clone, Copy, PartialEq)]
enum Await {
    Response(u64),
    Diagnostics,
    Nothing,
}

/// The child's three pipes, driven from one thread with poll(2): no helper threads, writes never
/// block while the server is blocked writing to us.
struct Io {
    child: std::process::Child,
    stdin: Option<std::process::ChildStdin>,
    stdout: std::process::ChildStdout,
    stderr: std::process::ChildStderr,
    pending: Vec<u8>,
    written: usize,
    close_when_written: bool,
    inbuf: Vec<u8>,
    errbuf: Vec<u8>,
    out_eof: bool,
    err_eof: bool,
    received: Vec<Value>,
}

impl Io {
    /// Splits complete `Content-Length` frames off `inbuf`.
    fn parse_frames(&mut self) {
        loop {
            let Some(h) = self.inbuf.windows(4).position(|w| w == b"\r\n\r\n") else {
                return;
            };
            let header = String::from_utf8_lossy(&self.inbuf[..h]).to_string();
            let len = header.lines().find_map(|l| {
                l.strip_prefix("Content-Length:")
                    .and_then(|v| v.trim().parse::<usize>().ok())
            });
            let Some(len) = len else {
                self.received.push(json!({"unparsable_header": header}));
                self.inbuf.clear();
                return;
            };
            if self.inbuf.len() < h + 4 + len {
                return;
            }
            let body: Vec<u8> = self.inbuf.drain(..h + 4 + len).skip(h + 4).collect();
            self.received.push(
                serde_json::from_slice(&body)
                    .unwrap_or_else(|_| json!({"unparsable_body": String::from_utf8_lossy(&body)})),
            );
        }
    }

    /// One poll round: moves whatever can be moved. Returns false on timeout.
    fn pump(&mut self, timeout: Duration) -> bool {
        use std::os::fd::AsRawFd;
        let mut fds: Vec<libc::pollfd> = vec![];
        let mut roles = vec![];
        if !self.out_eof {
            fds.push(libc::pollfd {
                fd: self.stdout.as_raw_fd(),
                events: libc::POLLIN,
                revents: 0,
            });
            roles.push(0);
        }
        if !self.err_eof {
            fds.push(libc::pollfd {
                fd: self.stderr.as_raw_fd(),
                events: libc::POLLIN,
                revents: 0,
            });
            roles.push(1);
        }
        if let (Some(si), true) = (&self.stdin, self.written < self.pending.len()) {
            fds.push(libc::pollfd {
                fd: si.as_raw_fd(),
                events: libc::POLLOUT,
                revents: 0,
            });
            roles.push(2);
        }
        if fds.is_empty() {
            return true;
        }
        let ms = timeout.as_millis().min(i32::MAX as u128) as i32;
        let n = unsafe { libc::poll(fds.as_mut_ptr(), fds.len() as libc::nfds_t, ms.max(1)) };
        if n <= 0 {
            return false;
        }
        let mut buf = [0u8; 65536];
        for (fd, role) in fds.iter().zip(roles) {
            if fd.revents == 0 {
                continue;
            }
            match role {
                0 => match self.stdout.read(&mut buf) {
                    Ok(0) | Err(_) => self.out_eof = true,
                    Ok(k) => {
                        self.inbuf.extend_from_slice(&buf[..k]);
                        self.parse_frames();
                    }
                },
                1 => match self.stderr.read(&mut buf) {
                    Ok(0) | Err(_) => self.err_eof = true,
                    Ok(k) => self.errbuf.extend_from_slice(&buf[..k]),
                },
                _ => {
                    let res = self.stdin.as_mut().unwrap().write(&self.pending[self.written..]);
                    match res {
                        Ok(k) => self.written += k,
                        Err(e) if e.kind() == std::io::ErrorKind::WouldBlock => {}
                        Err(_) => {
                            // EPIPE: the server is gone; the analysis says so
                            self.stdin = None;
                            self.written = self.pending.len();
                        }
                    }
                }
            }
        }
        if self.written >= self.pending.len() && self.close_when_written {
            self.stdin = None;
        }
        true
    }

    /// Pumps until `cond` holds, stdout is at EOF, or the deadline passes (-> Err).
    fn until(&mut self, what: &str, cond: &dyn Fn(&Io) -> bool) -> Result<(), String> {
        let deadline = Instant::now() + TIMEOUT;
        while !cond(self) && !self.out_eof {
            let now = Instant::now();
            if now >= deadline {
                return Err(self.hang(what));
            }
            self.pump(deadline - now);
        }
        Ok(())
    }

    fn send(&mut self, bytes: Vec<u8>) {
        self.pending.extend(bytes);
    }

    fn hang(&mut self, what: &str) -> String {
        let state = format!("{:?}", self.child.try_wait());
        let mut threads = String::new();
        if let Ok(rd) = std::fs::read_dir(format!("/proc/{}/task", self.child.id())) {
            for t in rd.flatten() {
                let f = |n: &str| {
                    std::fs::read_to_string(t.path().join(n))
                        .unwrap_or_default()
                        .trim()
                        .replace('\n', " < ")
                };
                threads.push_str(&format!(" [{} wchan={} stack={}]", f("comm"), f("wchan"), f("stack")));
            }
        }
        let _ = self.child.kill();
        let _ = self.child.wait();
        format!(
            "lelwel-ls neither answered nor exited within {TIMEOUT:?} ({what}; process state before kill {state}; {} messages received, threads:{threads}, last: {})",
            self.received.len(),
            self.received.last().map_or("-".to_string(), |v| v.to_string().chars().take(200).collect())
        )
    }
}

/// Runs one session. `Err` is a machinery failure (the server hangs, cannot be spawned, ...).
///
/// `pin_cpu`: run all threads of the server on one CPU. The server's threads (stdin reader, main
/// loop, analysis thread, stdout writer) hand every message over four times; on one CPU that is a
/// context switch each, across CPUs a wake-up each, which in the sandbox costs 10x more than the
/// work itself. Unpinned sessions keep real parallelism between the threads.
pub fn run_session(
    ls: &std::path::Path,
    uris: &[Url; 2],
    s: &Session,
    pacing: Pacing,
    pin_cpu: Option<usize>,
) -> Result<SessionResult, String> {
    // RUST_BACKTRACE=0: with a backtrace every panic in the server costs seconds of symbolisation
    let mut cmd = Command::new(ls);
    cmd.env("RUST_BACKTRACE", "0")
        .stdin(Stdio::piped())
        .stdout(Stdio::piped())
        .stderr(Stdio::piped());
    // The child inherits the affinity of the spawning thread. (Not `pre_exec`: that makes std fork
    // instead of posix_spawn, and forking a process with dozens of busy threads is a COW storm.)
    let affinity = |cpus: std::ops::Range<usize>| unsafe {
        let mut set: libc::cpu_set_t = std::mem::zeroed();
        for c in cpus {
            libc::CPU_SET(c, &mut set);
        }
        libc::sched_setaffinity(0, std::mem::size_of::<libc::cpu_set_t>(), &set);
    };
    // a pinned session keeps its driver thread on the same CPU: the two strictly alternate
    match pin_cpu {
        Some(cpu) => affinity(cpu..cpu + 1),
        None => affinity(0..libc::CPU_SETSIZE as usize),
    }
    let mut child = cmd.spawn().map_err(|e| format!("cannot spawn {}: {e}", ls.display()))?;
    let stdin = child.stdin.take().unwrap();
    unsafe {
        use std::os::fd::AsRawFd;
        let fl = libc::fcntl(stdin.as_raw_fd(), libc::F_GETFL);
        libc::fcntl(stdin.as_raw_fd(), libc::F_SETFL, fl | libc::O_NONBLOCK);
    }
    let mut io = Io {
        stdout: child.stdout.take().unwrap(),
        stderr: child.stderr.take().unwrap(),
        stdin: Some(stdin),
        child,
        pending: vec![],
        written: 0,
        close_when_written: false,
        inbuf: vec![],
        errbuf: vec![],
        out_eof: false,
        err_eof: false,
        received: vec![],
    };

    // id 0 = initialize, ids 1..=n = steps (notifications simply do not use theirs), n+1 = shutdown
    let n = s.steps.len() as u64;
    let mut msgs: Vec<(Value, Await, bool)> = vec![
        (
            json!({"jsonrpc": "2.0", "id": 0, "method": "initialize",
                   "params": {"processId": null, "rootUri": null, "capabilities": {}}}),
            Await::Response(0),
            false,
        ),
        (
            json!({"jsonrpc": "2.0", "method": "initialized", "params": {}}),
            Await::Nothing,
            false,
        ),
    ];
    for (i, st) in s.steps.iter().enumerate() {
        let id = i as u64 + 1;
        let aw = match st.event {
            Event::Open { .. } | Event::Change { .. } => Await::Diagnostics,
            Event::Close { .. } => Await::Nothing,
            Event::Request { .. } => Await::Response(id),
        };
        msgs.push((
            message(uris, &st.event, id, id as i32),
            aw,
            st.idle_after || aw == Await::Nothing,
        ));
    }
    msgs.push((
        json!({"jsonrpc": "2.0", "id": n + 1, "method": "shutdown", "params": null}),
        Await::Response(n + 1),
        false,
    ));
    msgs.push((
        json!({"jsonrpc": "2.0", "method": "exit", "params": null}),
        Await::Nothing,
        false,
    ));

    match pacing {
        Pacing::Burst => {
            for (m, _, _) in msgs.iter() {
                io.send(frame(m));
            }
        }
        Pacing::LockStep => {
            let mut diags_wanted = 0usize;
            for (m, aw, idle) in msgs.iter() {
                if io.stdin.is_none() || io.out_eof {
                    break; // the server is gone; the analysis below says so
                }
                io.send(frame(m));
                if *aw == Await::Diagnostics {
                    diags_wanted += 1;
                }
                let (aw, want) = (*aw, diags_wanted);
                io.until(&format!("lock-step wait after sending {m}"), &move |io: &Io| {
                    io.written >= io.pending.len()
                        && match aw {
                            Await::Nothing => true,
                            Await::Diagnostics => {
                                io.received
                                    .iter()
                                    .filter(|v| v["method"] == "textDocument/publishDiagnostics")
                                    .count()
                                    >= want
                            }
                            Await::Response(id) => io
                                .received
                                .iter()
                                .any(|v| v.get("method").is_none() && v["id"] == json!(id)),
                        }
                })?;
                if *idle && !io.out_eof {
                    std::thread::sleep(IDLE);
                }
            }
        }
    }
    io.close_when_written = true;
    if io.written >= io.pending.len() {
        io.stdin = None;
    }
    io.until("waiting for end of output", &|_| false)?;
    let deadline = Instant::now() + TIMEOUT;
    while !io.err_eof && Instant::now() < deadline {
        io.pump(Duration::from_millis(50));
    }
    let start = Instant::now();
    let status = loop {
        match io.child.try_wait() {
            Ok(Some(st)) => break st,
            Ok(None) if start.elapsed() > TIMEOUT => return Err(io.hang("waiting for exit")),
            Ok(None) => std::thread::sleep(Duration::from_millis(1)),
            Err(e) => return Err(format!("wait failed: {e}")),
        }
    };
    let stderr = String::from_utf8_lossy(&io.errbuf).to_string();
    let received = std::mem::take(&mut io.received);

    // ---- analysis ----
    let mut res = SessionResult {
        exit_code: status.code(),
        stderr,
        ..Default::default()
    };
    let response = |id: u64| -> Vec<&Value> {
        received
            .iter()
            .filter(|v| v.get("method").is_none() && v["id"] == json!(id))
            .collect()
    };
    let shutdown_answered = response(n + 1).len() == 1;
    res.died = status.code() != Some(0) || !shutdown_answered;
    let tid = |ev: &Event| match ev {
        Event::Open { text, .. } | Event::Change { text, .. } => crate::texts::text_id(text),
        _ => String::new(),
    };
    let diags: Vec<&Value> = received
        .iter()
        .filter(|v| v["method"] == "textDocument/publishDiagnostics")
        .collect();
    let mut diag_idx = 0;
    let mut first_unanswered: Option<&Event> = None;
    for (i, st) in s.steps.iter().enumerate() {
        let id = i as u64 + 1;
        match &st.event {
            Event::Open { .. } | Event::Change { .. } => {
                match diags.get(diag_idx) {
                    None => {
                        first_unanswered.get_or_insert(&st.event);
                    }
                    Some(d) => {
                        if let Some(exp) = &st.expect {
                            res.compared += 1;
                            if d["params"] != *exp {
                                res.findings.push(Finding {
                                    key: format!("stdio-diag-mismatch:{}", tid(&st.event)),
                                    detail: format!(
                                        "step {i}: server published {} but in-process published {}",
                                        d["params"], exp
                                    ),
                                    step: Some(i),
                                });
                            }
                        }
                    }
                }
                diag_idx += 1;
            }
            Event::Close { .. } => {}
            Event::Request { req, .. } => {
                let rs = response(id);
                if rs.is_empty() {
                    first_unanswered.get_or_insert(&st.event);
                } else if rs.len() > 1 {
                    res.findings.push(Finding {
                        key: format!("stdio-duplicate-reply:{}", req.kind()),
                        detail: format!("step {i}: {} responses for request id {id}", rs.len()),
                        step: Some(i),
                    });
                } else if rs[0].get("error").is_some() {
                    res.findings.push(Finding {
                        key: format!("stdio-error-reply:{}", req.kind()),
                        detail: format!("step {i}: {}", rs[0]),
                        step: Some(i),
                    });
                } else if let Some(exp) = &st.expect {
                    res.compared += 1;
                    let got = rs[0].get("result").cloned().unwrap_or(Value::Null);
                    if got != *exp {
                        res.findings.push(Finding {
                            key: format!("stdio-reply-mismatch:{}", req.kind()),
                            detail: format!(
                                "step {i} ({:?}): server answered {got} but in-process answered {exp}",
                                req
                            ),
                            step: Some(i),
                        });
                    }
                }
            }
        }
    }
    if diags.len() > diag_idx {
        res.findings.push(Finding::new(
            "stdio-unexpected-message".into(),
            "more publishDiagnostics than open/change".into(),
        ));
    }
    for v in received.iter() {
        let known_noti = v["method"] == "textDocument/publishDiagnostics";
        let known_resp = v.get("method").is_none() && v["id"].as_u64().is_some_and(|id| id <= n + 1);
        if !known_noti && !known_resp {
            res.findings
                .push(Finding::new("stdio-unexpected-message".into(), v.to_string()));
        }
    }
    if response(0).len() != 1 {
        res.findings
            .push(Finding::new("stdio-no-initialize-reply".into(), String::new()));
    }
    if res.died {
        let panic_line = res
            .stderr
            .lines()
            .filter(|l| l.contains("panicked at"))
            .collect::<Vec<_>>()
            .join(" | ");
        let after = first_unanswered.map_or("shutdown".to_string(), |e| e.kind().to_string());
        let key = match &s.origin {
            Some(o) => format!("server-dies-after-swallowed-panic:{o}"),
            None => format!("stdio-server-died:{after}"),
        };
        res.findings.push(Finding {
            key,
            detail: format!(
                "lelwel-ls exit status {:?}, shutdown answered: {shutdown_answered}, first unanswered step: {after}; stderr: {panic_line}",
                status.code()
            ),
            step: None,
        });
    }
    if let Some(o) = &s.origin {
        // whatever goes wrong after a swallowed panic (empty answers while the dead thread is not
        // yet noticed, death of the server) is the one defect "nothing recovers from it"
        for f in res.findings.iter_mut() {
            if [
                "stdio-reply-mismatch",
                "stdio-diag-mismatch",
                "stdio-error-reply",
                "stdio-server-died",
            ]
            .iter()
            .any(|p| f.key.starts_with(p))
            {
                f.detail = format!("{}: {}", f.key, f.detail);
                f.key = format!("server-dies-after-swallowed-panic:{o}");
            }
        }
    }
    Ok(res)
}
