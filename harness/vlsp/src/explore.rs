//! In-process exploration: reference tables (fresh server, one document, every request),
//! enumeration of all notification histories up to the depth bound, request sweeps after every
//! history, follow-ups after every step that did not end cleanly.

use crate::exec::{Exec, Outcome, PanicRec, Reply};
use crate::oracle::{self, Ctx, Finding, TextInfo};
use crate::texts::{history_json, history_short, requests, Event, Req, ALPHABET};
use serde_json::{json, Value};
use std::collections::{BTreeMap, HashMap};
use std::path::Path;

/// Replies of a fresh server that only ever opened `text` in document `doc`.
pub struct RefTable {
    pub open: Outcome,
    pub reqs: Vec<Req>,
    pub outs: Vec<Outcome>,
    index: HashMap<Req, usize>,
}

impl RefTable {
    pub fn get(&self, r: &Req) -> Option<&Outcome> {
        self.index.get(r).map(|i| &self.outs[*i])
    }
}

pub struct Counters {
    pub transitions: u64,
    pub evaluations: u64,
    pub nontrivial: u64,
}

pub fn same_outcome(a: &Outcome, b: &Outcome) -> bool {
    let p = |v: &Vec<PanicRec>| v.iter().map(|p| (p.msg.clone(), p.loc.clone())).collect::<Vec<_>>();
    a.reply == b.reply && p(&a.panics) == p(&b.panics)
}

pub fn build_ref(dir: &Path, doc: usize, text: &'static str, cnt: &mut Counters) -> RefTable {
    let open_ev = Event::Open { doc, text };
    let mut ex = Exec::new(dir);
    let open = ex.step(&open_ev);
    cnt.transitions += 1;
    let reqs = if open.clean() { requests(text) } else { vec![] };
    let mut outs = vec![];
    for r in reqs.iter() {
        let o = ex.step(&Event::Request { doc, req: r.clone() });
        cnt.transitions += 1;
        if !o.clean() {
            // the analysis thread is gone (or the server with it): continue on a fresh server
            ex = Exec::new(dir);
            ex.step(&open_ev);
            cnt.transitions += 1;
        }
        outs.push(o);
    }
    let index = reqs.iter().cloned().enumerate().map(|(i, r)| (r, i)).collect();
    RefTable {
        open,
        reqs,
        outs,
        index,
    }
}

/// tables[doc][text index]
pub struct Tables {
    pub t: [Vec<RefTable>; 2],
}

impl Tables {
    pub fn build(dir: &Path, cnt: &mut Counters) -> Tables {
        let mk = |doc: usize, cnt: &mut Counters| ALPHABET.iter().map(|(_, t)| build_ref(dir, doc, t, cnt)).collect();
        Tables {
            t: [mk(0, cnt), mk(1, cnt)],
        }
    }
    pub fn of(&self, doc: usize, text: &str) -> &RefTable {
        let i = ALPHABET
            .iter()
            .position(|(_, t)| *t == text)
            .expect("text of the alphabet");
        &self.t[doc][i]
    }
}

/// Key of a panic observed while executing `kind`.
pub fn panic_key(kind: &str, p: &PanicRec) -> String {
    format!("panic:{kind}:{}", p.loc)
}

#[derive(Clone)]
pub struct Violation {
    pub key: String,
    pub detail: String,
    pub history: Vec<Event>,
}

impl Violation {
    pub fn to_json(&self) -> Value {
        json!({"key": self.key, "detail": self.detail, "history": history_json(&self.history), "short": history_short(&self.history)})
    }
    pub fn from_json(v: &Value) -> Option<Violation> {
        Some(Violation {
            key: v["key"].as_str()?.to_string(),
            detail: v["detail"].as_str()?.to_string(),
            history: v["history"]
                .as_array()?
                .iter()
                .map(Event::from_json)
                .collect::<Option<Vec<_>>>()?,
        })
    }
}

/// Violations grouped by key: occurrence count and the shortest reproducing history seen.
#[derive(Default)]
pub struct Bag {
    pub by_key: BTreeMap<String, (u64, Violation)>,
}

impl Bag {
    pub fn add(&mut self, v: Violation) {
        self.add_n(v, 1)
    }
    pub fn add_n(&mut self, v: Violation, n: u64) {
        let rank = |v: &Violation| (v.history.len(), history_short(&v.history));
        match self.by_key.get_mut(&v.key) {
            None => {
                self.by_key.insert(v.key.clone(), (n, v));
            }
            Some(e) => {
                e.0 += n;
                if rank(&v) < rank(&e.1) {
                    e.1 = v;
                }
            }
        }
    }
    pub fn findings(&mut self, fs: Vec<Finding>, history: &[Event]) {
        for f in fs {
            self.add(Violation {
                key: f.key,
                detail: f.detail,
                history: history.to_vec(),
            });
        }
    }
}

/// Clauses 1 and 2 for one executed step: panics in any thread, call returned.
pub fn judge_liveness(ev: &Event, out: &Outcome, history: &[Event], bag: &mut Bag) {
    for p in out.panics.iter() {
        let on_main = out.reply.is_none() && Some(p) == out.panics.last();
        let key = if on_main {
            format!("server-dies:{}:{}", ev.kind(), p.loc)
        } else {
            panic_key(ev.kind(), p)
        };
        bag.add(Violation {
            key,
            detail: format!("thread {} panicked at {}: {}", p.thread, p.loc, p.msg),
            history: history.to_vec(),
        });
    }
}

/// Key of the first defect of a step that did not end cleanly (origin of follow-ups).
pub fn origin_key(ev: &Event, out: &Outcome) -> String {
    match out.panics.first() {
        Some(p) => panic_key(ev.kind(), p),
        None => format!("no-reply:{}", ev.kind()),
    }
}

/// The text-level oracle: every reply of the reference table of (doc, text) against clauses 3-7,
/// and clauses 1-2 for the single-request histories `open(doc,text) request`.
/// Returns the requests whose outcome is a violation (they get follow-ups).
pub fn check_table(
    dir: &Path,
    uris: &[lsp_types::Url; 2],
    doc: usize,
    ti: &TextInfo,
    tab: &RefTable,
    bag: &mut Bag,
    cnt: &mut Counters,
) -> Vec<Req> {
    let open_ev = Event::Open { doc, text: ti.text };
    let h0 = vec![open_ev.clone()];
    judge_liveness(&open_ev, &tab.open, &h0, bag);
    bag.findings(oracle::check_diagnostics(ti, &uris[doc], &tab.open), &h0);
    cnt.evaluations += 1;
    let parser_uri = crate::exec::parser_rs_uri(dir);
    let lookup = |r: &Req| tab.get(r);
    let cx = Ctx {
        ti,
        uri: &uris[doc],
        parser_uri: &parser_uri,
        parser_rs: crate::exec::PARSER_RS,
        lookup: &lookup,
    };
    let mut suspicious = vec![];
    for (r, o) in tab.reqs.iter().zip(tab.outs.iter()) {
        let ev = Event::Request { doc, req: r.clone() };
        let h = vec![open_ev.clone(), ev.clone()];
        judge_liveness(&ev, o, &h, bag);
        let fs = oracle::check_reply(&cx, r, o);
        cnt.evaluations += 1;
        if o.reply.as_ref().is_some_and(|r| r.nontrivial()) {
            cnt.nontrivial += 1;
        }
        if !o.clean() || !fs.is_empty() {
            suspicious.push(r.clone());
        }
        bag.findings(fs, &h);
    }
    suspicious
}

/// All notification histories of length 1..=depth from the state "nothing open", protocol
/// conformant: open only closed documents, change/close only open ones.
pub fn notification_histories(depth: usize) -> Vec<Vec<Event>> {
    fn rec(state: [Option<&'static str>; 2], cur: &mut Vec<Event>, depth: usize, out: &mut Vec<Vec<Event>>) {
        if cur.len() == depth {
            return;
        }
        for doc in 0..2 {
            let mut evs = vec![];
            match state[doc] {
                None => evs.extend(ALPHABET.iter().map(|(_, t)| Event::Open { doc, text: t })),
                Some(_) => {
                    evs.extend(ALPHABET.iter().map(|(_, t)| Event::Change { doc, text: t }));
                    evs.push(Event::Close { doc });
                }
            }
            for e in evs {
                let mut next = state;
                next[doc] = match &e {
                    Event::Open { text, .. } | Event::Change { text, .. } => Some(*text),
                    _ => None,
                };
                cur.push(e);
                out.push(cur.clone());
                rec(next, cur, depth, out);
                cur.pop();
            }
        }
    }
    let mut out = vec![];
    rec([None, None], &mut vec![], depth, &mut out);
    out
}

pub fn final_state(h: &[Event]) -> [Option<&'static str>; 2] {
    let mut s = [None, None];
    for e in h {
        match e {
            Event::Open { doc, text } | Event::Change { doc, text } => s[*doc] = Some(*text),
            Event::Close { doc } => s[*doc] = None,
            Event::Request { .. } => {}
        }
    }
    s
}

pub struct HistoryStats {
    pub skipped_known_panicking: u64,
}

/// Executes one notification history on a fresh server, judges its last event (every proper
/// prefix is a history of its own) and sweeps every request over every open document.
/// Clause 8: every reply must equal the reply of a fresh server holding only the latest text.
pub fn run_history(
    dir: &Path,
    h: &[Event],
    tabs: &Tables,
    full_sweep: bool,
    bag: &mut Bag,
    cnt: &mut Counters,
    st: &mut HistoryStats,
) {
    let mut ex = Exec::new(dir);
    let mut tainted: [Option<String>; 2] = [None, None]; // origin key of an unclean open/change per document
    for (i, e) in h.iter().enumerate() {
        let o = ex.step(e);
        cnt.transitions += 1;
        let last = i + 1 == h.len();
        let prefix = &h[..=i];
        if o.reply.is_none() {
            // the server died on a notification
            if let Some(origin) = &tainted[e.doc()] {
                bag.add(Violation {
                    key: format!("server-dies-after-swallowed-panic:{origin}"),
                    detail: format!(
                        "{} after a swallowed panic: {:?}",
                        e.kind(),
                        o.panics.last().map(|p| (&p.loc, &p.msg))
                    ),
                    history: prefix.to_vec(),
                });
            } else {
                judge_liveness(e, &o, prefix, bag);
            }
            return;
        }
        match e {
            Event::Open { doc, text } | Event::Change { doc, text } => {
                let r = &tabs.of(*doc, text).open;
                tainted[*doc] = (!o.clean()).then(|| origin_key(e, &o));
                if last {
                    cnt.evaluations += 1;
                    if o.reply.as_ref().is_some_and(|r| r.nontrivial()) {
                        cnt.nontrivial += 1;
                    }
                    if !same_outcome(&o, r) {
                        bag.add(Violation {
                            key: format!("not-latest-text:{}:diagnostics", e.kind()),
                            detail: format!(
                                "{} published {} but a fresh server publishes {}",
                                e.kind(),
                                o.to_json(),
                                r.to_json()
                            ),
                            history: prefix.to_vec(),
                        });
                    }
                }
            }
            Event::Close { doc } => {
                tainted[*doc] = None;
                if last && !o.clean() {
                    judge_liveness(e, &o, prefix, bag);
                }
            }
            Event::Request { .. } => unreachable!(),
        }
    }
    let state = final_state(h);
    let last_kind = h.last().map_or("start", |e| e.kind());
    for doc in 0..2 {
        let Some(text) = state[doc] else { continue };
        if tainted[doc].is_some() {
            continue; // judged at the reference level (open of this text is not clean)
        }
        let tab = tabs.of(doc, text);
        for (r, ro) in tab.reqs.iter().zip(tab.outs.iter()) {
            if !ro.clean() && !full_sweep {
                st.skipped_known_panicking += 1;
                continue;
            }
            let ev = Event::Request { doc, req: r.clone() };
            let o = ex.step(&ev);
            cnt.transitions += 1;
            cnt.evaluations += 1;
            if o.reply.as_ref().is_some_and(|r| r.nontrivial()) {
                cnt.nontrivial += 1;
            }
            if !same_outcome(&o, ro) {
                let mut hist = h.to_vec();
                hist.push(ev.clone());
                bag.add(Violation {
                    key: format!("not-latest-text:{last_kind}:{}", r.kind()),
                    detail: format!(
                        "answered {} but a fresh server holding only the latest text answers {}",
                        o.to_json(),
                        ro.to_json()
                    ),
                    history: hist,
                });
            }
            if !o.clean() {
                // rebuild the state on a fresh server and go on with the sweep
                ex = Exec::new(dir);
                for e in h {
                    ex.step(e);
                    cnt.transitions += 1;
                }
            }
        }
    }
}

/// Follow-ups after a step that did not end cleanly: does the server survive the next event?
/// `base` ends with the suspicious event on document `doc`. Two pacings: at once / after 2 ms.
pub fn follow_ups(
    dir: &Path,
    base: &[Event],
    doc: usize,
    text: &'static str,
    tabs: &Tables,
    bag: &mut Bag,
    cnt: &mut Counters,
) {
    let other = 1 - doc;
    let valid = ALPHABET[0].1;
    let origin_ev = base.last().unwrap();
    let classes: Vec<(Vec<Event>, Event)> = vec![
        (
            vec![],
            Event::Request {
                doc,
                req: Req::Formatting,
            },
        ),
        (
            vec![],
            if matches!(origin_ev, Event::Open { .. }) {
                Event::Request {
                    doc,
                    req: Req::Hover(0, 0),
                }
            } else {
                origin_ev.clone()
            },
        ),
        (vec![], Event::Change { doc, text }),
        (vec![], Event::Close { doc }),
        (
            vec![Event::Open {
                doc: other,
                text: valid,
            }],
            Event::Request {
                doc: other,
                req: Req::Formatting,
            },
        ),
    ];
    for (pre, fu) in classes {
        for sleep in [false, true] {
            let mut h: Vec<Event> = pre.clone();
            h.extend(base.iter().cloned());
            let (mut ex, outs) = Exec::run(dir, &h);
            cnt.transitions += h.len() as u64;
            let o0 = outs.last().unwrap();
            if o0.reply.is_none() {
                break; // the origin itself kills the server; reported by judge_liveness
            }
            if sleep {
                std::thread::sleep(std::time::Duration::from_millis(2));
            }
            let o = ex.step(&fu);
            cnt.transitions += 1;
            cnt.evaluations += 1;
            h.push(fu.clone());
            if o.reply.is_none() {
                bag.add(Violation {
                    key: format!("server-dies-after-swallowed-panic:{}", origin_key(origin_ev, o0)),
                    detail: format!(
                        "the next event ({}) panics on the server's main thread: {:?}",
                        fu.kind(),
                        o.panics.last().map(|p| format!("{} {}", p.loc, p.msg))
                    ),
                    history: h,
                });
                continue;
            }
            // the server survived: then the answer must be the right one. (Right after the panic the
            // dying analysis thread may still count as alive, then the request gets an empty answer
            // instead of killing the server: same defect, same key.)
            let exp = match &fu {
                Event::Request { doc: d, req } => {
                    let t = if *d == doc { text } else { valid };
                    tabs.of(*d, t).get(req).cloned()
                }
                Event::Change { doc: d, text } => Some(tabs.of(*d, text).open.clone()),
                _ => Some(Outcome {
                    reply: Some(Reply::Closed),
                    panics: vec![],
                }),
            };
            let is_repeat = fu == *origin_ev;
            if let Some(exp) = exp {
                if !same_outcome(&o, &exp) && !(is_repeat && !o.clean()) {
                    bag.add(Violation {
                        key: format!("server-dies-after-swallowed-panic:{}", origin_key(origin_ev, o0)),
                        detail: format!(
                            "the server is still up but {} is answered {} instead of {}",
                            fu.kind(),
                            o.to_json(),
                            exp.to_json()
                        ),
                        history: h,
                    });
                }
            }
        }
    }
}
