//! The text alphabet, the request alphabet and our own UTF-16 line/character arithmetic.
//!
//! Nothing in here calls into `lelwel::ide` or `codespan_lsp`: positions are computed from the
//! text alone, following the LSP definition (lines end at `\n` or `\r\n`; `character` counts
//! UTF-16 code units inside the line, the terminator is not part of the line).

/// (id, text). Every id is used in violation keys, so keep them stable.
pub const ALPHABET: &[(&str, &str)] = &[
    // valid grammar with doc comments in front of a token list and of rules, plus a `part` rule
    (
        "valid-docs-part",
        "/// tok doc\ntoken A='a' B='b';\npart p;\nstart s;\n/// rule doc\ns: A [x];\n/// x doc\nx: B* 'a';\np: B;\n",
    ),
    // Pratt rule (left recursion + `right`), no trailing newline
    ("pratt", "token N P='+';\nright P;\nstart e;\ne: e P e | e '+' N | N;"),
    // semantic predicate and action (resolved through parser.rs next to document a)
    ("pred-action", "token A B;\nstart s;\ns: (?1 A #1 | B)*;\n"),
    // E005 redefinition, secondary label
    ("redefinition", "token A A;\nstart s;\ns: A;\ns: A;\n"),
    // E011 LL(1) conflict with related spans
    ("ll1-conflict", "token A B;\nstart s;\ns: A B | A;\n"),
    // half-typed fragments
    ("frag-token", "token ;"),
    // the same fragment typed into an otherwise complete grammar
    ("frag-token-in-grammar", "token ;\nstart s;\ns: A;\n"),
    ("frag-rule", "s:"),
    ("frag-paren", "token A; start s; s: ("),
    ("empty", ""),
    // non-ASCII: BMP char and surrogate pair in a comment and in a string, stray `é` outside
    ("unicode", "// é😀\ntoken A='😀é';\nstart s;\ns: A é '😀é';\n"),
    // valid grammar whose rule line ends in multi-byte symbols (positions past the line end must clamp in
    // UTF-16 units, not bytes)
    ("unicode-valid", "token A='€' B='→' D;\nstart file;\nfile: '€' '→' D;\n"),
    ("unterminated-string", "token A='a;\nstart s;\ns: A;\n"),
    ("unterminated-comment", "token A;\nstart s;\ns: A; /* x\n"),
    ("crlf", "token A;\r\nstart s;\r\ns: A x;\r\n"),
];

pub fn text_id(text: &str) -> String {
    for (id, t) in ALPHABET {
        if *t == text {
            return id.to_string();
        }
    }
    format!("text-{}", &vcommon::content_hash(text.as_bytes())[..8])
}

/// Line table of a text: byte range of every line *without* its terminator.
#[derive(Clone, Debug)]
pub struct Lines {
    pub spans: Vec<(usize, usize)>,
}

impl Lines {
    pub fn new(text: &str) -> Lines {
        let mut spans = vec![];
        let mut start = 0;
        for (i, b) in text.bytes().enumerate() {
            if b == b'\n' {
                let mut end = i;
                if end > start && text.as_bytes()[end - 1] == b'\r' {
                    end -= 1;
                }
                spans.push((start, end));
                start = i + 1;
            }
        }
        spans.push((start, text.len()));
        Lines { spans }
    }
    pub fn count(&self) -> u32 {
        self.spans.len() as u32
    }
    /// UTF-16 length of a line (terminator excluded).
    pub fn len16(&self, text: &str, line: u32) -> u32 {
        let (s, e) = self.spans[line as usize];
        text[s..e].encode_utf16().count() as u32
    }
    /// Byte offset -> (line, character). `None` when the offset is not a char boundary or lies
    /// beyond the text. An offset inside a `\r\n` terminator is reported relative to the line start
    /// (so it ends up past the line length and fails the range-inside check, as it should).
    pub fn position(&self, text: &str, offset: usize) -> Option<(u32, u32)> {
        if offset > text.len() || !text.is_char_boundary(offset) {
            return None;
        }
        let line = text.as_bytes()[..offset].iter().filter(|b| **b == b'\n').count();
        let start = self.spans[line].0;
        Some((line as u32, text[start..offset].encode_utf16().count() as u32))
    }
    /// (line, character) -> byte offset for positions that denote a place in the text:
    /// line < line count, character <= UTF-16 length and not inside a surrogate pair.
    pub fn offset(&self, text: &str, line: u32, character: u32) -> Option<usize> {
        let (s, e) = *self.spans.get(line as usize)?;
        let mut units = 0u32;
        for (i, c) in text[s..e].char_indices() {
            if units == character {
                return Some(s + i);
            }
            units += c.len_utf16() as u32;
        }
        (units == character).then_some(e)
    }
    /// Is a returned range inside the document (clause 6)?
    pub fn range_inside(&self, text: &str, r: &lsp_types::Range) -> bool {
        let ok = |p: &lsp_types::Position| p.line < self.count() && p.character <= self.len16(text, p.line);
        ok(&r.start) && ok(&r.end) && (r.start.line, r.start.character) <= (r.end.line, r.end.character)
    }
    pub fn end_position(&self, text: &str) -> (u32, u32) {
        let last = self.count() - 1;
        (last, self.len16(text, last))
    }
}

/// How far past the end of a line positions are generated. The implementation's line includes the
/// terminator (`\n`, `\r\n`), so `length + 1` is still "inside" for it on terminated lines;
/// `+ 3` is the smallest excess that is past the end on every line of every text (CRLF included).
pub const PAST_END: u32 = 3;

/// Every position the protocol allows us to send for this text: every UTF-16 character index of
/// every line (including indices inside surrogate pairs), up to PAST_END past the line end, and
/// the line one past the last line.
pub fn positions(text: &str) -> Vec<(u32, u32)> {
    let lines = Lines::new(text);
    let mut res = vec![];
    for l in 0..lines.count() {
        for c in 0..=lines.len16(text, l) + PAST_END {
            res.push((l, c));
        }
    }
    res.push((lines.count(), 0));
    res.push((lines.count(), 1));
    res
}

#[derive(Clone, Debug, PartialEq, Eq, Hash, PartialOrd, Ord)]
pub enum Req {
    Hover(u32, u32),
    Definition(u32, u32),
    References(u32, u32, bool),
    Completion(u32, u32),
    Formatting,
}

impl Req {
    pub fn kind(&self) -> &'static str {
        match self {
            Req::Hover(..) => "hover",
            Req::Definition(..) => "definition",
            Req::References(..) => "references",
            Req::Completion(..) => "completion",
            Req::Formatting => "formatting",
        }
    }
    pub fn pos(&self) -> Option<(u32, u32)> {
        match *self {
            Req::Hover(l, c) | Req::Definition(l, c) | Req::References(l, c, _) | Req::Completion(l, c) => Some((l, c)),
            Req::Formatting => None,
        }
    }
}

/// All requests for a document holding `text`.
pub fn requests(text: &str) -> Vec<Req> {
    let mut res = vec![Req::Formatting];
    for (l, c) in positions(text) {
        res.push(Req::Hover(l, c));
        res.push(Req::Definition(l, c));
        res.push(Req::References(l, c, true));
        res.push(Req::References(l, c, false));
        res.push(Req::Completion(l, c));
    }
    res
}

#[derive(Clone, Debug, PartialEq, Eq, Hash)]
pub enum Event {
    Open { doc: usize, text: &'static str },
    Change { doc: usize, text: &'static str },
    Close { doc: usize },
    Request { doc: usize, req: Req },
}

impl Event {
    pub fn kind(&self) -> &'static str {
        match self {
            Event::Open { .. } => "open",
            Event::Change { .. } => "change",
            Event::Close { .. } => "close",
            Event::Request { req, .. } => req.kind(),
        }
    }
    pub fn doc(&self) -> usize {
        match self {
            Event::Open { doc, .. } | Event::Change { doc, .. } | Event::Close { doc } | Event::Request { doc, .. } => {
                *doc
            }
        }
    }
    pub fn to_json(&self) -> serde_json::Value {
        use serde_json::json;
        let d = ["a", "b"][self.doc()];
        match self {
            Event::Open { text, .. } => json!({"ev": "open", "doc": d, "text": text, "text_id": text_id(text)}),
            Event::Change { text, .. } => json!({"ev": "change", "doc": d, "text": text, "text_id": text_id(text)}),
            Event::Close { .. } => json!({"ev": "close", "doc": d}),
            Event::Request { req, .. } => match req {
                Req::Formatting => json!({"ev": "formatting", "doc": d}),
                Req::References(l, c, w) => {
                    json!({"ev": "references", "doc": d, "line": l, "character": c, "with_decl": w})
                }
                r => {
                    let (l, c) = r.pos().unwrap();
                    json!({"ev": r.kind(), "doc": d, "line": l, "character": c})
                }
            },
        }
    }
    pub fn from_json(v: &serde_json::Value) -> Option<Event> {
        let doc = match v["doc"].as_str()? {
            "a" => 0,
            "b" => 1,
            _ => return None,
        };
        let pos = || Some((v["line"].as_u64()? as u32, v["character"].as_u64()? as u32));
        let text = || -> Option<&'static str> { Some(Box::leak(v["text"].as_str()?.to_string().into_boxed_str())) };
        Some(match v["ev"].as_str()? {
            "open" => Event::Open { doc, text: text()? },
            "change" => Event::Change { doc, text: text()? },
            "close" => Event::Close { doc },
            "formatting" => Event::Request {
                doc,
                req: Req::Formatting,
            },
            "hover" => Event::Request {
                doc,
                req: Req::Hover(pos()?.0, pos()?.1),
            },
            "definition" => Event::Request {
                doc,
                req: Req::Definition(pos()?.0, pos()?.1),
            },
            "completion" => Event::Request {
                doc,
                req: Req::Completion(pos()?.0, pos()?.1),
            },
            "references" => Event::Request {
                doc,
                req: Req::References(pos()?.0, pos()?.1, v["with_decl"].as_bool()?),
            },
            _ => return None,
        })
    }
}

pub fn history_json(h: &[Event]) -> serde_json::Value {
    serde_json::Value::Array(h.iter().map(|e| e.to_json()).collect())
}

/// Short human readable rendering, e.g. `open(a,frag-token) completion(a,0:7) formatting(a)`.
pub fn history_short(h: &[Event]) -> String {
    h.iter()
        .map(|e| {
            let d = ["a", "b"][e.doc()];
            match e {
                Event::Open { text, .. } => format!("open({d},{})", text_id(text)),
                Event::Change { text, .. } => format!("change({d},{})", text_id(text)),
                Event::Close { .. } => format!("close({d})"),
                Event::Request { req, .. } => match req {
                    Req::Formatting => format!("formatting({d})"),
                    Req::References(l, c, w) => format!("references({d},{l}:{c},decl={w})"),
                    r => format!("{}({d},{}:{})", r.kind(), r.pos().unwrap().0, r.pos().unwrap().1),
                },
            }
        })
        .collect::<Vec<_>>()
        .join(" ")
}
