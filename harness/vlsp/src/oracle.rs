//! The oracle: what property C20 demands of every reply, computed from the text alone with the
//! front end (`Parser` + `SemanticPass` + `format`) and our own position arithmetic. Nothing in
//! `lelwel::ide` is called from here.

use crate::exec::{Outcome, Reply};
use crate::texts::{text_id, Lines, Req};
use codespan_reporting::diagnostic::{LabelStyle, Severity};
use lelwel::frontend::ast::{AstNode, File, Name, Named, Regex, RuleDecl, Symbol};
use lelwel::frontend::lexer::Token;
use lelwel::frontend::parser::{Cst, Node, NodeRef, Parser, Span};
use lelwel::frontend::sema::{SemanticData, SemanticPass, TokenName};
use lsp_types::*;
use std::collections::BTreeSet;

#[derive(Clone, Debug)]
pub struct Finding {
    pub key: String,
    pub detail: String,
    /// index of the session step the finding is about (stdio only)
    pub step: Option<usize>,
}

impl Finding {
    pub fn new(key: String, detail: String) -> Finding {
        Finding {
            key,
            detail,
            step: None,
        }
    }
}

/// How often each content clause actually demanded something (shows the oracle is not vacuous).
pub const DEMANDS: [&str; 7] = [
    "diagnostics_nonempty_compared",
    "hover_sets_demanded",
    "definition_same_document_checked",
    "definition_parser_rs_checked",
    "definition_required_present",
    "references_nonempty_cross_checked",
    "formatting_checked",
];
pub static DEMAND_COUNT: [std::sync::atomic::AtomicU64; 7] = [const { std::sync::atomic::AtomicU64::new(0) }; 7];
fn demanded(i: usize) {
    DEMAND_COUNT[i].fetch_add(1, std::sync::atomic::Ordering::Relaxed);
}

pub struct FrontEnd {
    pub cst: &'static Cst<'static>,
    pub sema: SemanticData<'static>,
    pub diags: Vec<codespan_reporting::diagnostic::Diagnostic<()>>,
    pub formatted: Option<String>,
}

pub struct TextInfo {
    pub text: &'static str,
    pub id: String,
    pub lines: Lines,
    /// `None` when the front end itself panics on this text (then the server cannot do better
    /// than panic too; the panic is reported, the content clauses are skipped).
    pub fe: Option<FrontEnd>,
}

impl TextInfo {
    pub fn new(text: &'static str) -> TextInfo {
        let fe = std::panic::catch_unwind(|| {
            let mut diags = vec![];
            let cst: &'static Cst<'static> = Box::leak(Box::new(Parser::new(text, &mut diags).parse(&mut diags)));
            let sema = SemanticPass::run(cst, &mut diags);
            (cst, sema, diags)
        })
        .ok()
        .map(|(cst, sema, diags)| {
            let formatted = std::panic::catch_unwind(|| lelwel::backend::format::format(cst)).ok();
            FrontEnd {
                cst,
                sema,
                diags,
                formatted,
            }
        });
        crate::exec::discard_panics();
        TextInfo {
            text,
            id: text_id(text),
            lines: Lines::new(text),
            fe,
        }
    }

    fn range(&self, span: &Span) -> Option<Range> {
        let (sl, sc) = self.lines.position(self.text, span.start)?;
        let (el, ec) = self.lines.position(self.text, span.end)?;
        Some(Range::new(Position::new(sl, sc), Position::new(el, ec)))
    }

    /// Clause 3: the diagnostics the server has to publish for this text.
    pub fn expected_diagnostics(&self, uri: &Url) -> Option<Vec<Diagnostic>> {
        let fe = self.fe.as_ref()?;
        let mut res = vec![];
        for d in fe.diags.iter() {
            let mut related = vec![];
            for l in d.labels.iter().filter(|l| l.style == LabelStyle::Secondary) {
                related.push(DiagnosticRelatedInformation {
                    location: Location::new(uri.clone(), self.range(&l.range)?),
                    message: l.message.clone(),
                });
            }
            let mut message = d.message.clone();
            if let Some(l) = d
                .labels
                .iter()
                .find(|l| l.style == LabelStyle::Primary && !l.message.is_empty())
            {
                message.push(' ');
                message.push_str(&l.message);
            }
            let range = match d.labels.first() {
                Some(l) => self.range(&l.range)?,
                None => Range::default(),
            };
            let severity = match d.severity {
                Severity::Error | Severity::Bug => DiagnosticSeverity::ERROR,
                Severity::Warning => DiagnosticSeverity::WARNING,
                _ => DiagnosticSeverity::HINT,
            };
            res.push(Diagnostic {
                range,
                severity: Some(severity),
                code: d.code.clone().map(NumberOrString::String),
                message,
                related_information: Some(related),
                ..Default::default()
            });
        }
        let mut hints = vec![];
        for d in res.iter() {
            for r in d.related_information.iter().flatten() {
                hints.push(Diagnostic {
                    range: r.location.range,
                    severity: Some(DiagnosticSeverity::HINT),
                    code: d.code.clone(),
                    message: r.message.clone(),
                    ..Default::default()
                });
            }
        }
        res.append(&mut hints);
        Some(res)
    }
}

fn inside(span: &Span, off: usize) -> bool {
    span.start <= off && off < span.end
}

/// Chain of rule nodes from the root's child down to the innermost rule node whose text covers `off`.
fn rule_path(cst: &Cst<'_>, off: usize) -> Vec<NodeRef> {
    let mut path = vec![];
    let mut cur = NodeRef::ROOT;
    'outer: loop {
        for c in cst.children(cur) {
            if matches!(cst.get(c), Node::Rule(..)) && inside(&cst.span(c), off) {
                path.push(c);
                cur = c;
                continue 'outer;
            }
        }
        return path;
    }
}

/// The token (kind, span) whose text covers `off`.
fn token_at(cst: &Cst<'_>, node: NodeRef, off: usize) -> Option<(Token, Span)> {
    for c in cst.children(node) {
        match cst.get(c) {
            Node::Token(tok, _) => {
                let s = cst.span(c);
                if inside(&s, off) {
                    return Some((tok, s));
                }
            }
            Node::Rule(..) => {
                if let Some(t) = token_at(cst, c, off) {
                    return Some(t);
                }
            }
        }
    }
    None
}

fn fmt_set(set: Option<&BTreeSet<TokenName<'_>>>) -> String {
    match set {
        None => "{}".to_string(),
        Some(s) => {
            let names: Vec<&str> = s
                .iter()
                .map(|t| t.0.as_ref())
                .filter(|n| *n == "EOF" || !n.starts_with("EOF"))
                .collect();
            format!("{{{}}}", names.join(", "))
        }
    }
}

/// Declarations by name: (name or symbol string, span of the declaration node).
fn declarations(cst: &Cst<'_>) -> Vec<(String, Span)> {
    let mut res = vec![];
    if let Some(file) = File::cast(cst, NodeRef::ROOT) {
        for r in file.rule_decls(cst) {
            if let Some((n, _)) = r.name(cst) {
                res.push((n.to_string(), r.span(cst)));
            }
        }
        for t in file.token_decls(cst) {
            if let Some((n, _)) = t.name(cst) {
                res.push((n.to_string(), t.span(cst)));
            }
            if let Some((s, _)) = t.symbol(cst) {
                res.push((s.to_string(), t.span(cst)));
            }
        }
    }
    res
}

/// Everything a reply must satisfy. `lookup` gives the replies of a fresh server holding the same
/// text to other requests (needed for the definition/references cross check).
pub struct Ctx<'a> {
    pub ti: &'a TextInfo,
    pub uri: &'a Url,
    pub parser_uri: &'a Url,
    pub parser_rs: &'a str,
    pub lookup: &'a dyn Fn(&Req) -> Option<&'a Outcome>,
}

fn same_doc_ranges(reply: &Reply, uri: &Url, parser_uri: &Url, out: &mut Vec<Range>, foreign: &mut Vec<String>) {
    let mut locs: Vec<(&Location, bool)> = vec![];
    match reply {
        Reply::Diags(ds) => {
            for d in ds {
                out.push(d.range);
                for r in d.related_information.iter().flatten() {
                    locs.push((&r.location, false));
                }
            }
        }
        Reply::Hover(Some(h)) => out.extend(h.range),
        Reply::Definition(Some(GotoDefinitionResponse::Scalar(l))) => locs.push((l, true)),
        Reply::Definition(Some(GotoDefinitionResponse::Array(ls))) => locs.extend(ls.iter().map(|l| (l, true))),
        Reply::References(Some(ls)) => locs.extend(ls.iter().map(|l| (l, false))),
        Reply::Formatting(Some(es)) => out.extend(es.iter().map(|e| e.range)),
        _ => {}
    }
    for (l, allow_parser) in locs {
        if l.uri == *uri {
            out.push(l.range);
        } else if !(allow_parser && l.uri == *parser_uri) {
            foreign.push(l.uri.to_string());
        }
    }
}

fn multiset_minus(a: &[Location], b: &[Location]) -> Option<Vec<Location>> {
    let mut rest: Vec<Location> = a.to_vec();
    for x in b {
        let i = rest.iter().position(|y| y == x)?;
        rest.remove(i);
    }
    Some(rest)
}

fn refs_of(o: Option<&Outcome>) -> Option<&Vec<Location>> {
    match o?.reply.as_ref()? {
        Reply::References(Some(v)) => Some(v),
        _ => None,
    }
}

fn def_of(o: Option<&Outcome>) -> Option<&Location> {
    match o?.reply.as_ref()? {
        Reply::Definition(Some(GotoDefinitionResponse::Scalar(l))) => Some(l),
        _ => None,
    }
}

/// Clause 3 for open/change.
pub fn check_diagnostics(ti: &TextInfo, uri: &Url, out: &Outcome) -> Vec<Finding> {
    let mut f = vec![];
    let Some(Reply::Diags(got)) = &out.reply else { return f };
    if ti.fe.is_none() {
        return f;
    }
    match ti.expected_diagnostics(uri) {
        None => f.push(Finding {
            key: format!("diag-span-unconvertible:{}", ti.id),
            detail: "a front-end diagnostic span is not on a character boundary of the text".into(),
            step: None,
        }),
        Some(exp) => {
            if !exp.is_empty() {
                demanded(0);
            }
            if *got != exp {
                f.push(Finding {
                    key: format!("diag-mismatch:{}", ti.id),
                    detail: format!(
                        "published {} expected {}",
                        serde_json::to_string(got).unwrap(),
                        serde_json::to_string(&exp).unwrap()
                    ),
                    step: None,
                });
            }
        }
    }
    check_ranges(ti, uri, uri, "diagnostics", out, &mut f);
    f
}

fn check_ranges(ti: &TextInfo, uri: &Url, parser_uri: &Url, kind: &str, out: &Outcome, f: &mut Vec<Finding>) {
    let Some(reply) = &out.reply else { return };
    let (mut ranges, mut foreign) = (vec![], vec![]);
    same_doc_ranges(reply, uri, parser_uri, &mut ranges, &mut foreign);
    for r in ranges {
        if !ti.lines.range_inside(ti.text, &r) {
            f.push(Finding {
                key: format!("range-outside:{kind}:{}", ti.id),
                detail: format!(
                    "range {}:{}-{}:{} is not inside the document",
                    r.start.line, r.start.character, r.end.line, r.end.character
                ),
                step: None,
            });
            break;
        }
    }
    if let Some(u) = foreign.first() {
        f.push(Finding {
            key: format!("foreign-uri:{kind}:{}", ti.id),
            detail: format!("location in {u}"),
            step: None,
        });
    }
}

/// Clauses 4-7 (and 6 for every reply) for one request and its outcome. Clauses 1 and 2 (panics,
/// call returns) are judged by the caller because they need the history.
pub fn check_reply(cx: &Ctx<'_>, req: &Req, out: &Outcome) -> Vec<Finding> {
    let mut f = vec![];
    let ti = cx.ti;
    let Some(reply) = &out.reply else { return f };
    check_ranges(ti, cx.uri, cx.parser_uri, req.kind(), out, &mut f);
    let Some(fe) = ti.fe.as_ref() else { return f };
    let cst = fe.cst;
    // Positions past the end of a line default back to the end of that line (LSP specification). The zone
    // between the line end and the end of its terminator is left unjudged: codespan (and with it lelwel)
    // counts the terminator as part of the line there.
    let off = req.pos().and_then(|(l, c)| {
        ti.lines.offset(ti.text, l, c).or_else(|| {
            let (_, e) = *ti.lines.spans.get(l as usize)?;
            let next = ti.lines.spans.get(l as usize + 1).map_or(ti.text.len(), |x| x.0);
            let len16 = ti.lines.len16(ti.text, l);
            (c > len16 + (next - e) as u32).then_some(e)
        })
    });
    let at = |l: u32, c: u32| format!("{l}:{c}");
    match (req, reply) {
        (Req::Formatting, Reply::Formatting(edits)) => {
            demanded(6);
            let (el, ec) = ti.lines.end_position(ti.text);
            let whole = Range::new(Position::new(0, 0), Position::new(el, ec));
            let ok = match (edits, &fe.formatted) {
                (Some(es), Some(exp)) => es.len() == 1 && es[0].range == whole && es[0].new_text == *exp,
                _ => false,
            };
            if !ok {
                f.push(Finding {
                    key: format!("formatting-mismatch:{}", ti.id),
                    detail: format!(
                        "expected one edit replacing 0:0-{el}:{ec} with format(text) = {:?}, got {}",
                        fe.formatted,
                        serde_json::to_string(edits).unwrap()
                    ),
                    step: None,
                });
            }
        }
        (Req::Hover(l, c), Reply::Hover(h)) => {
            let Some(off) = off else { return f };
            let path = rule_path(cst, off);
            let Some(&node) = path.last() else { return f };
            let target = if let Some(r) = Regex::cast(cst, node) {
                Some(r.syntax())
            } else {
                RuleDecl::cast(cst, node).and_then(|r| r.regex(cst)).map(|r| r.syntax())
            };
            let Some(target) = target else { return f };
            let mut block = format!(
                "**First:** {}\n\n**Follow:** {}\n\n**Predict:** {}",
                fmt_set(fe.sema.first_sets.get(&target)),
                fmt_set(fe.sema.follow_sets.get(&target)),
                fmt_set(fe.sema.predict_sets.get(&target))
            );
            if matches!(
                Regex::cast(cst, node),
                Some(Regex::Star(_) | Regex::Plus(_) | Regex::Optional(_))
            ) {
                block.push_str(&format!(
                    "\n\n**Recovery:** {}",
                    fmt_set(fe.sema.recovery_sets.get(&target))
                ));
            }
            let exp_range = ti.range(&cst.span(node));
            demanded(1);
            let ok = match h {
                Some(Hover {
                    contents: HoverContents::Markup(m),
                    range,
                }) => {
                    m.kind == MarkupKind::Markdown
                        && m.value.ends_with(&block)
                        && !m.value[..m.value.len() - block.len()].contains("**First:**")
                        && *range == exp_range
                }
                _ => false,
            };
            if !ok {
                f.push(Finding {
                    key: format!("hover-sets:{}", ti.id),
                    detail: format!(
                        "hover at {} must show {:?} with range {:?}; got {}",
                        at(*l, *c),
                        block,
                        exp_range,
                        serde_json::to_string(h).unwrap()
                    ),
                    step: None,
                });
            }
        }
        (Req::Definition(l, c), Reply::Definition(d)) => {
            let Some(off) = off else { return f };
            let tok = token_at(cst, NodeRef::ROOT, off);
            let path = rule_path(cst, off);
            let decls = declarations(cst);
            let mut bad = |key: &str, detail: String| {
                f.push(Finding {
                    key: format!("{key}:{}", ti.id),
                    detail: format!("definition at {}: {detail}", at(*l, *c)),
                    step: None,
                })
            };
            // a name or symbol used inside the body of a top-level rule, and declared in the text,
            // must resolve
            let in_body = path.len() >= 2
                && RuleDecl::cast(cst, path[0]).is_some()
                && path[1..].iter().all(|n| Regex::cast(cst, *n).is_some())
                && (Name::cast(cst, *path.last().unwrap()).is_some()
                    || Symbol::cast(cst, *path.last().unwrap()).is_some());
            let required = match (in_body, &tok) {
                (true, Some((Token::Id | Token::Str, span))) => {
                    let name = &ti.text[span.clone()];
                    decls.iter().any(|(n, _)| n == name).then_some(name)
                }
                _ => None,
            };
            if required.is_some() {
                demanded(4);
            }
            match d {
                None => {
                    if let Some(name) = required {
                        bad(
                            "definition-missing",
                            format!("`{name}` is declared in the text but no definition is returned"),
                        );
                    }
                }
                Some(GotoDefinitionResponse::Scalar(loc)) if loc.uri == *cx.uri => {
                    let Some((Token::Id | Token::Str, span)) = tok else {
                        bad(
                            "defref-disagree",
                            format!(
                                "a definition {:?} is returned for a position that is on no name",
                                loc.range
                            ),
                        );
                        return f;
                    };
                    let name = &ti.text[span.clone()];
                    let candidates: Vec<Range> = decls
                        .iter()
                        .filter(|(n, _)| n == name)
                        .filter_map(|(_, s)| ti.range(s))
                        .collect();
                    if !candidates.contains(&loc.range) {
                        bad(
                            "defref-disagree",
                            format!(
                                "`{name}` resolves to {:?}, which is no declaration of that name ({candidates:?})",
                                loc.range
                            ),
                        );
                        return f;
                    }
                    demanded(2);
                    let (ql, qc) = (loc.range.start.line, loc.range.start.character);
                    let with = refs_of((cx.lookup)(&Req::References(ql, qc, true)));
                    let without = refs_of((cx.lookup)(&Req::References(ql, qc, false)));
                    let (Some(with), Some(without)) = (with, without) else {
                        bad(
                            "defref-disagree",
                            format!("references at the declaration {ql}:{qc} gave no answer"),
                        );
                        return f;
                    };
                    let here = Location::new(cx.uri.clone(), ti.range(&span).unwrap());
                    let decl = Location::new(cx.uri.clone(), loc.range);
                    if !with.contains(&here) || !without.contains(&here) {
                        bad(
                            "defref-disagree",
                            format!("references({ql}:{qc}) does not list the use {:?}", here.range),
                        );
                    } else if multiset_minus(with, without) != Some(vec![decl]) {
                        bad("defref-disagree", format!("references({ql}:{qc}) with declaration is not references without it plus the declaration"));
                    }
                }
                Some(GotoDefinitionResponse::Scalar(loc)) if loc.uri == *cx.parser_uri => {
                    let kind = match tok {
                        Some((Token::Predicate, _)) => "predicate",
                        Some((Token::Action, _)) => "action",
                        _ => {
                            bad(
                                "defref-disagree",
                                "a parser.rs location is returned for something that is no predicate or action".into(),
                            );
                            return f;
                        }
                    };
                    let span = tok.unwrap().1;
                    let number = &ti.text[span.start + 1..span.end];
                    let rule = path
                        .first()
                        .and_then(|n| RuleDecl::cast(cst, *n))
                        .and_then(|r| r.name(cst))
                        .map(|x| x.0);
                    let exp = rule
                        .and_then(|r| cx.parser_rs.find(&format!("fn {kind}_{r}_{number}")))
                        .and_then(|o| {
                            let pl = Lines::new(cx.parser_rs);
                            pl.position(cx.parser_rs, o)
                        });
                    demanded(3);
                    let got = (loc.range.start.line, loc.range.start.character);
                    if exp != Some(got) || loc.range.start != loc.range.end {
                        bad(
                            "defref-disagree",
                            format!(
                                "{kind} {number} of rule {rule:?} is at {exp:?} in parser.rs, got {:?}",
                                loc.range
                            ),
                        );
                    }
                }
                Some(other) => bad(
                    "defref-disagree",
                    format!("unexpected definition shape {}", serde_json::to_string(other).unwrap()),
                ),
            }
        }
        (Req::References(l, c, true), Reply::References(Some(with))) => {
            if off.is_none() {
                return f;
            }
            let mut bad = |detail: String| {
                f.push(Finding {
                    key: format!("defref-disagree:{}", ti.id),
                    detail: format!("references at {}: {detail}", at(*l, *c)),
                    step: None,
                })
            };
            let Some(without) = refs_of((cx.lookup)(&Req::References(*l, *c, false))) else {
                bad("no answer without declaration".into());
                return f;
            };
            if with.is_empty() && without.is_empty() {
                return f;
            }
            if !without.is_empty() {
                demanded(5);
            }
            let decl = match multiset_minus(with, without) {
                Some(rest) if rest.len() == 1 => rest[0].clone(),
                _ => {
                    bad("with declaration is not the list without it plus exactly one location".into());
                    return f;
                }
            };
            for r in without {
                let d = def_of((cx.lookup)(&Req::Definition(
                    r.range.start.line,
                    r.range.start.character,
                )));
                if d != Some(&decl) {
                    bad(format!(
                        "lists {:?} whose definition is {:?}, not {:?}",
                        r.range,
                        d.map(|d| d.range),
                        decl.range
                    ));
                    break;
                }
            }
        }
        _ => {}
    }
    f
}
