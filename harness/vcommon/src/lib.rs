//! Shared reporting machinery: evidence files, replay artefacts, known findings, exit codes.
//!
//! Exit codes used by every check: 0 = property held on everything explored (known findings are
//! printed as `KNOWN-FINDING:` lines), 1 = at least one violation not listed in
//! `/verif/known_findings.jsonl` (a `VIOLATION property=<id> replay=<path>` line per reported
//! violation), 2 = machinery failure (never a verdict).

use serde_json::{json, Value};
use std::collections::BTreeMap;
use std::path::{Path, PathBuf};
use std::time::Instant;

pub const VERIF: &str = "/verif";

pub fn verif_dir() -> PathBuf {
    PathBuf::from(std::env::var("VERIF_DIR").unwrap_or_else(|_| VERIF.to_string()))
}

pub fn tier() -> String {
    let mut tier = std::env::var("VERIF_TIER").unwrap_or_else(|_| "quick".to_string());
    let args: Vec<String> = std::env::args().collect();
    for (i, a) in args.iter().enumerate() {
        if a == "--tier" {
            if let Some(t) = args.get(i + 1) {
                tier = t.clone();
            }
        }
    }
    if tier != "thorough" {
        tier = "quick".to_string();
    }
    tier
}

pub fn seed() -> i64 {
    std::env::var("VERIF_SEED")
        .ok()
        .and_then(|s| s.parse().ok())
        .unwrap_or(0)
}

/// One entry of known_findings.jsonl.
/// `{"status":"known","property":"C18","key":"<signature>","desc":"..."}` or
/// `{"status":"fixed","property":"C07","commit":"<sha>","desc":"..."}` (fixed entries suppress nothing).
#[derive(Clone, Debug)]
pub struct KnownFinding {
    pub property: String,
    pub key: String,
    pub desc: String,
}

pub fn load_known_findings(property: &str) -> Vec<KnownFinding> {
    let path = verif_dir().join("known_findings.jsonl");
    let mut res = vec![];
    if let Ok(text) = std::fs::read_to_string(&path) {
        for line in text.lines() {
            let line = line.trim();
            if line.is_empty() || line.starts_with('#') || line.starts_with("fixed:") {
                continue;
            }
            let Ok(v) = serde_json::from_str::<Value>(line) else {
                eprintln!("machinery: unparsable line in known_findings.jsonl: {line}");
                std::process::exit(2);
            };
            if v["status"] == "known" && v["property"] == property {
                res.push(KnownFinding {
                    property: property.to_string(),
                    key: v["key"].as_str().unwrap_or("").to_string(),
                    desc: v["desc"].as_str().unwrap_or("").to_string(),
                });
            }
        }
    }
    res
}

pub struct Violation {
    /// Signature used to match against known findings (exact match on `key`).
    pub key: String,
    /// Human readable one-line summary.
    pub summary: String,
    /// Full replay artefact.
    pub replay: Value,
}

pub struct Report {
    pub property: String,
    pub tier: String,
    pub seed: i64,
    start: Instant,
    known: Vec<KnownFinding>,
    known_hits: BTreeMap<String, (u64, String)>,
    violations: Vec<Violation>,
    total_violations: u64,
    pub max_reported: usize,
    pub assumptions: Vec<String>,
}

impl Report {
    pub fn new(property: &str) -> Self {
        Report {
            property: property.to_string(),
            tier: tier(),
            seed: seed(),
            start: Instant::now(),
            known: load_known_findings(property),
            known_hits: BTreeMap::new(),
            violations: vec![],
            total_violations: 0,
            max_reported: 20,
            assumptions: vec![],
        }
    }
    pub fn is_thorough(&self) -> bool {
        self.tier == "thorough"
    }
    pub fn elapsed(&self) -> f64 {
        self.start.elapsed().as_secs_f64()
    }
    /// Registers a violation; returns true when it is a new (unlisted) one.
    pub fn violation(&mut self, v: Violation) -> bool {
        if let Some(k) = self.known.iter().find(|k| k.key == v.key) {
            let e = self
                .known_hits
                .entry(k.key.clone())
                .or_insert((0, k.desc.clone()));
            e.0 += 1;
            return false;
        }
        self.total_violations += 1;
        if self.violations.len() < self.max_reported {
            self.violations.push(v);
        }
        true
    }
    pub fn violation_count(&self) -> u64 {
        self.total_violations
    }
    /// Writes replays + evidence, prints the verdict lines and returns the exit code.
    pub fn finish(self, mut coverage: Value) -> i32 {
        let dir = verif_dir();
        let replay_dir = dir.join("replays").join(&self.property);
        let _ = std::fs::remove_dir_all(&replay_dir);
        for (key, (n, desc)) in self.known_hits.iter() {
            println!(
                "KNOWN-FINDING: property={} {} [{} occurrence(s)] key={}",
                self.property, desc, n, key
            );
        }
        if !self.violations.is_empty() {
            std::fs::create_dir_all(&replay_dir).expect("create replay dir");
        }
        for (i, v) in self.violations.iter().enumerate() {
            let path = replay_dir.join(format!("{i}.json"));
            let body = json!({
                "property": self.property,
                "key": v.key,
                "summary": v.summary,
                "replay": v.replay,
            });
            std::fs::write(&path, serde_json::to_string_pretty(&body).unwrap()).unwrap();
            println!("# {}", v.summary);
            println!(
                "VIOLATION property={} replay={}",
                self.property,
                path.display()
            );
        }
        if self.total_violations as usize > self.violations.len() {
            println!(
                "# {} further violation(s) of {} not written out",
                self.total_violations as usize - self.violations.len(),
                self.property
            );
        }
        if let Value::Object(ref mut m) = coverage {
            m.insert(
                "known_finding_occurrences".into(),
                json!(self
                    .known_hits
                    .iter()
                    .map(|(k, (n, _))| json!({"key": k, "count": n}))
                    .collect::<Vec<_>>()),
            );
        }
        let evidence = json!({
            "property_id": self.property,
            "tier": self.tier,
            "seed": self.seed,
            "level": "model_checking",
            "coverage": coverage,
            "assumptions": self.assumptions,
            "wall_s": self.start.elapsed().as_secs_f64(),
            "violations": self.total_violations,
        });
        let ev_dir = dir.join("evidence");
        std::fs::create_dir_all(&ev_dir).unwrap();
        let ev_path = ev_dir.join(format!("{}.json", self.property));
        std::fs::write(&ev_path, serde_json::to_string_pretty(&evidence).unwrap()).unwrap();
        println!(
            "{} tier={} wall={:.1}s violations={} known_finding_keys_hit={} evidence={}",
            self.property,
            self.tier,
            self.start.elapsed().as_secs_f64(),
            self.total_violations,
            self.known_hits.len(),
            ev_path.display()
        );
        if self.total_violations > 0 {
            1
        } else {
            0
        }
    }
}

/// Machinery failure: never a verdict.
pub fn machinery_failure(msg: &str) -> ! {
    eprintln!("MACHINERY-ERROR: {msg}");
    std::process::exit(2);
}

/// Deterministic 128-bit content hash (two SipHash-1-3 passes with fixed, different prefixes).
pub fn content_hash(data: &[u8]) -> String {
    use std::hash::{Hash, Hasher};
    let mut h1 = std::collections::hash_map::DefaultHasher::new();
    0x5eed_0001u64.hash(&mut h1);
    data.hash(&mut h1);
    let mut h2 = std::collections::hash_map::DefaultHasher::new();
    0x5eed_0002u64.hash(&mut h2);
    data.hash(&mut h2);
    format!("{:016x}{:016x}", h1.finish(), h2.finish())
}

pub fn scratch_dir(name: &str) -> PathBuf {
    let p = verif_dir().join(".work").join(name);
    let _ = std::fs::remove_dir_all(&p);
    std::fs::create_dir_all(&p).expect("create scratch dir");
    p
}

pub fn remove_dir(p: &Path) {
    let _ = std::fs::remove_dir_all(p);
}
